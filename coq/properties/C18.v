(* C18 — External catch-up never regresses, corrupts or panics (reset_node_state_if_update). *)
From Coq Require Import Lia.
From ChitchatModel Require Import Base SMap Ids Bytes Params NodeState Stream DeltaWire Message Cluster
  FD Chitchat World Monitors SMap_lemmas NodeState_lemmas Cluster_lemmas Chitchat_lemmas Inv NodeInv
  Truth NodeTruth Exact Catchup_lemmas Reach ReachExact CatchupReach GuardsGen GuardTie FD_lemmas Liveness_lemmas ReachFD FdKnown MemInv CatchupFD.

Lemma set_many_newer_wins : forall kvs c evs k o,
  kget k (c_kvs c) = Some o ->
  exists o', kget k (c_kvs (fst (set_many c kvs evs))) = Some o' /\ v_ver o <= v_ver o'.
Proof.
  induction kvs as [|[k1 v1] r IH]; intros c evs k o Hg; cbn [set_many fst]; [exists o; split; [exact Hg|lia]|].
  destruct (set_versioned_value c k1 v1) as [c' ev] eqn:E.
  destruct (svv_key_mono c k1 v1 k o Hg) as (o1 & Hg1 & Hle1). rewrite E in Hg1. cbn [fst] in Hg1.
  destruct (IH c' (evs ++ ev) k o1 Hg1) as (o2 & Hg2 & Hle2). exists o2. split; [exact Hg2|lia].
Qed.

(* For EVERY node, member, supplied key set, max_version and last_gc_version (consistent or not):
   never an abort; the outcome is "copy unchanged" or "key set replaced"; in both cases the
   copy's (GC watermark, max version) does not decrease; detector sets, watch channel and callback
   counter are untouched (the call makes nobody live); a member present in the removed-member
   memory and absent from the map is not re-created. *)
Theorem C18_catchup_spec : forall n i kvs mx gc,
  exists n' evs,
    reset_node_state_if_update n i kvs mx gc = Ok (n', evs) /\
    fd_live (nd_fd n') = fd_live (nd_fd n) /\ fd_dead (nd_fd n') = fd_dead (nd_fd n) /\
    nd_watch n' = nd_watch n /\ nd_prev n' = nd_prev n /\ nd_cb n' = nd_cb n /\
    (* other members are untouched *)
    (forall j, j <> i -> nm_get j (cs_nodes (nd_cs n')) = nm_get j (cs_nodes (nd_cs n))) /\
    (* garbage-collected member: not re-created *)
    (last_heartbeat_if_deleted (nd_cs n) i <> None -> nm_get i (cs_nodes (nd_cs n)) = None ->
       nm_get i (cs_nodes (nd_cs n')) = None) /\
    (* the copy: unchanged, or its key set is the supplied one (newer version of a common key kept)
       and its frontier strictly increased *)
    (forall c, nm_get i (cs_nodes (nd_cs n)) = Some c ->
       exists c', nm_get i (cs_nodes (nd_cs n')) = Some c' /\
         (c' = c \/
          (lex_lt_p (monotonic_property c) (monotonic_property c') /\
           c_gc c <= c_gc c' /\ c_max c' = N.max mx (c_max (fst (set_many c kvs []))) /\
           (forall k o', kget k (c_kvs c') = Some o' -> in_keys k kvs = true) /\
           (forall k o, kget k (c_kvs c) = Some o -> in_keys k kvs = true ->
              exists o', kget k (c_kvs (fst (set_many c kvs []))) = Some o' /\ v_ver o <= v_ver o')))).
Proof.
  intros n i kvs mx gc. unfold reset_node_state_if_update.
  set (should_init := match last_heartbeat_if_deleted (nd_cs n) i with None => true | Some _ => false end).
  set (cs := if should_init then node_state_mut_or_init (nd_cs n) i else nd_cs n).
  assert (Hother : forall j, j <> i -> nm_get j (cs_nodes cs) = nm_get j (cs_nodes (nd_cs n))).
  { intros j Hj. unfold cs. destruct should_init; [|reflexivity]. unfold node_state_mut_or_init.
    destruct (nm_get i (cs_nodes (nd_cs n))); [reflexivity|]. cbn [cs_nodes].
    apply nm_get_insert_other. congruence. }
  assert (Hsame : forall c, nm_get i (cs_nodes (nd_cs n)) = Some c -> nm_get i (cs_nodes cs) = Some c).
  { intros c Hc. unfold cs. destruct should_init; [|exact Hc]. unfold node_state_mut_or_init. rewrite Hc. exact Hc. }
  assert (Hgcd : last_heartbeat_if_deleted (nd_cs n) i <> None -> nm_get i (cs_nodes (nd_cs n)) = None ->
                 nm_get i (cs_nodes cs) = None).
  { intros Hm Hnone. unfold cs, should_init. destruct (last_heartbeat_if_deleted (nd_cs n) i); [exact Hnone|congruence]. }
  destruct (nm_get i (cs_nodes cs)) as [c0|] eqn:E0.
  2:{ eexists _, []. split; [reflexivity|]. cbn [nd_fd nd_watch nd_prev nd_cb nd_cs with_cs].
      repeat split; auto. intros c Hc. discriminate (Hsame c Hc). }
  destruct (mx <=? c_max c0) eqn:E1.
  { eexists _, []. split; [reflexivity|]. cbn [nd_fd nd_watch nd_prev nd_cb nd_cs with_cs].
    repeat split; auto.
    - intros Hm Hnone. discriminate (Hgcd Hm Hnone).
    - intros c Hc. pose proof (Hsame c Hc) as Hx. injection Hx as <-. exists c0. split; [exact E0|left; reflexivity]. }
  destruct (mx <? c_gc c0) eqn:E2.
  { eexists _, []. split; [reflexivity|]. cbn [nd_fd nd_watch nd_prev nd_cb nd_cs with_cs].
    repeat split; auto.
    - intros Hm Hnone. discriminate (Hgcd Hm Hnone).
    - intros c Hc. pose proof (Hsame c Hc) as Hx. injection Hx as <-. exists c0. split; [exact E0|left; reflexivity]. }
  apply N.leb_gt in E1. apply N.ltb_ge in E2.
  destruct (set_many c0 kvs []) as [c1 evs] eqn:Es.
  destruct (set_many_frontier kvs c0 []) as (Hg1 & Hm1 & Hh1). rewrite Es in Hg1, Hm1, Hh1. cbn [fst] in *.
  set (c2 := mkCopy (c_hb c1) (N.max gc (c_gc c1)) (N.max mx (c_max c1))
                    (filter (fun e => in_keys (fst e) kvs) (c_kvs c1))).
  assert (Hlt : lex_lt (monotonic_property c0) (monotonic_property c2) = true).
  { apply lex_lt_iff. unfold lex_lt_p, monotonic_property, c2. cbn [fst snd c_gc c_max].
    destruct (N.lt_ge_cases (c_gc c0) (N.max gc (c_gc c1))) as [H|H]; [left; exact H|].
    right. split; lia. }
  rewrite Hlt. eexists _, _. split; [reflexivity|]. cbn [nd_fd nd_watch nd_prev nd_cb nd_cs with_cs with_fd].
  split; [unfold fd_get_or_create; destruct (wm_get i (fd_samples (nd_fd n))); reflexivity|].
  split; [unfold fd_get_or_create; destruct (wm_get i (fd_samples (nd_fd n))); reflexivity|].
  split; [reflexivity|]. split; [reflexivity|]. split; [reflexivity|]. cbn [cs_nodes]. split; [|split].
  - intros j Hj. rewrite nm_get_insert_other by congruence. apply Hother. exact Hj.
  - intros Hm Hnone. discriminate (Hgcd Hm Hnone).
  - intros c Hc. pose proof (Hsame c Hc) as Hx. injection Hx as <-. exists c2. split; [apply nm_get_insert_same|].
    right. split; [apply lex_lt_iff; exact Hlt|]. split; [unfold c2; cbn [c_gc]; lia|].
    split; [unfold c2; cbn [c_max]; rewrite Es; reflexivity|]. split.
    + intros k o' Hk. unfold c2 in Hk. cbn [c_kvs] in Hk.
      apply (sm_get_in bytes_cmp bytes_cmp_eq) in Hk. apply filter_In in Hk as [_ Hf]. exact Hf.
    + intros k o Hk _. destruct (set_many_newer_wins kvs c0 [] k o Hk) as (o' & H1 & H2).
      exists o'. rewrite Es in H1. rewrite Es. auto.
Qed.
Print Assumptions C18_catchup_spec.

(* ---- "... replaces its key set with the supplied one (keeping the newer version of a key present in
        both)", entry by entry: when the catch-up goes through and the supplied keys are distinct,
        EVERY supplied key is in the copy afterwards, holding the supplied entry, or the copy's own
        previous entry when that one is at least as recent; nothing else is (C18_catchup_spec).
        This is what the C18 key-set monitor evaluates on the implementation's dumps. ---- *)
Theorem C18_catchup_installs_every_supplied_key : forall n i kvs mx gc c n' evs,
  node_inv n -> NoDup (map fst kvs) ->
  nm_get i (cs_nodes (nd_cs n)) = Some c -> c_max c < mx -> c_gc c <= mx ->
  reset_node_state_if_update n i kvs mx gc = Ok (n', evs) ->
  exists c', nm_get i (cs_nodes (nd_cs n')) = Some c' /\
    (forall k v, In (k, v) kvs -> kget k (c_kvs c') = Some (merged c k v)) /\
    (forall k o, kget k (c_kvs c') = Some o -> in_keys k kvs = true).
Proof.
  intros n i kvs mx gc c n' evs Hinv Hnd Hc Hmx Hgc Hrun. unfold reset_node_state_if_update in Hrun.
  set (should_init := match last_heartbeat_if_deleted (nd_cs n) i with None => true | Some _ => false end) in Hrun.
  set (cs := if should_init then node_state_mut_or_init (nd_cs n) i else nd_cs n) in Hrun.
  assert (Hsame : nm_get i (cs_nodes cs) = Some c).
  { unfold cs. destruct should_init; [|exact Hc]. unfold node_state_mut_or_init. rewrite Hc. exact Hc. }
  rewrite Hsame in Hrun.
  assert (E1 : (mx <=? c_max c) = false) by (apply N.leb_gt; exact Hmx). rewrite E1 in Hrun.
  assert (E2 : (mx <? c_gc c) = false) by (apply N.ltb_ge; exact Hgc). rewrite E2 in Hrun.
  destruct (set_many c kvs []) as [c1 evs1] eqn:Es.
  destruct (lex_lt _ _); [|discriminate]. injection Hrun as <- _.
  cbn [nd_cs with_cs with_fd cs_nodes]. eexists. split; [apply nm_get_insert_same|]. cbn [c_kvs]. split.
  - intros k v Hin.
    assert (Hci : ksorted (c_kvs c)).
    { destruct Hinv as [_ Hcop]. apply (ci_sorted c). eapply Hcop. apply nm_get_in. exact Hc. }
    pose proof (set_many_get kvs c [] k v Hnd Hin) as Hg. rewrite Es in Hg. cbn [fst] in Hg.
    apply kget_filter_keep; [|exact Hg|].
    + pose proof (set_many_sorted kvs c [] Hci) as Hs. rewrite Es in Hs. exact Hs.
    + cbn [fst]. unfold in_keys. apply existsb_exists. exists (k, v). split; [exact Hin|]. apply bytes_eqb_eq. reflexivity.
  - intros k o Hk. apply (sm_get_in bytes_cmp bytes_cmp_eq) in Hk. apply filter_In in Hk as [_ Hf]. exact Hf.
Qed.
Print Assumptions C18_catchup_installs_every_supplied_key.

(* "... and never makes a member live by itself": a catch-up carries no heartbeat information.  The
   sampling windows of the failure detector are exactly what they were — for every member a window
   that existed is untouched (neither reported to nor cleared), and at most one EMPTY window is
   created, for the member caught up.  An empty window never makes a member alive
   (C10_needs_two_reports), and a window that is untouched gives the same verdict at the next
   evaluation as it would have given without the catch-up. *)
Theorem C18_catchup_leaves_the_sampling_windows : forall n i kvs mx gc n' evs,
  reset_node_state_if_update n i kvs mx gc = Ok (n', evs) ->
  forall j, wm_get j (fd_samples (nd_fd n')) = wm_get j (fd_samples (nd_fd n)) \/
            (j = i /\ wm_get j (fd_samples (nd_fd n)) = None /\ wm_get j (fd_samples (nd_fd n')) = Some new_window).
Proof.
  intros n i kvs mx gc n' evs Hrun j. unfold reset_node_state_if_update in Hrun.
  set (cs := if match last_heartbeat_if_deleted (nd_cs n) i with None => true | Some _ => false end
             then node_state_mut_or_init (nd_cs n) i else nd_cs n) in Hrun.
  destruct (nm_get i (cs_nodes cs)) as [c|]; [|injection Hrun as <- _; left; reflexivity].
  destruct (mx <=? c_max c); [injection Hrun as <- _; left; reflexivity|].
  destruct (mx <? c_gc c); [injection Hrun as <- _; left; reflexivity|].
  destruct (set_many c kvs []) as [c1 evs1].
  destruct (lex_lt _ _); [|discriminate]. injection Hrun as <- _.
  cbn [nd_fd with_fd with_cs]. unfold fd_get_or_create.
  destruct (wm_get i (fd_samples (nd_fd n))) as [w|] eqn:E; [left; reflexivity|]. cbn [fd_samples].
  destruct (id_dec i j) as [<-|Hne].
  - right. split; [reflexivity|]. split; [exact E|]. apply (sm_get_insert_same id_cmp id_cmp_eq).
  - left. apply (sm_get_insert_other id_cmp id_cmp_eq); exact Hne.
Qed.
Print Assumptions C18_catchup_leaves_the_sampling_windows.

Example C18_nonvacuous :
  (* the follow-up of a gossip reset: copy at (gc 10, max 5), fetched state (gc 10, max 10) with
     no newer key: accepted, frontier becomes (10, 10), no abort *)
  let i := mkId [x78] 0 (V4 1 1) in
  let c := mkCopy 1 10 5 [([x61], mkVV [x31] 5 SSet)] in
  let cfg := mkCfg (mkId [x6e] 0 (V4 2 2)) [x63] (mkFdCfg 8 1 10 1 1 1 1) 1 PNone false in
  let n := mkNode cfg (mkCluster [(i, c)] []) new_fd [] [] 0 0 in
  exists n' evs, reset_node_state_if_update n i [([x61], mkVV [x31] 5 SSet)] 10 10 = Ok (n', evs) /\
    nm_get i (cs_nodes (nd_cs n')) = Some (mkCopy 1 10 10 [([x61], mkVV [x31] 5 SSet)]).
Proof. eexists _, _. split; vm_compute; reflexivity. Qed.

(* ---- "interleaved with gossip steps", globally: honest catch-ups in the step relation ----
   [cstep] (CatchupReach.v) = every step of the global relation of C02 (joins, owner writes, GC,
   heartbeats, clock, liveness evaluation, SYN creation, delivery of any message ever sent to any
   node any number of times; weak acceptances — KF-1 — excluded) PLUS, at any time on any node, a
   catch-up fed with a SNAPSHOT of any member: a state some node could hold of it — well-formed,
   integral and exact relative to the truth ([snap_ok]).  Every copy any node holds in a reachable
   state is a snapshot, and it stays one however long it is kept (C18_fetched_states_stay_honest),
   so "fetch a member's state from any peer, now or a while ago, and feed it to any node" is covered
   for every interleaving.  In every state reachable this way every copy on every node is still
   integral (C03) and exact up to its frontier (C02), the owner's own copy is still the truth (C05),
   and every message in flight keeps its invariants. *)
Theorem C18_honest_catchups_keep_every_copy_integral_and_exact : forall zc,
  (forall b c, zc b = Some c -> len c <= len b) -> forall g, creachable zc g ->
  forall a n X c, node_at g a = Some n -> nm_get X (cs_nodes (nd_cs n)) = Some c ->
    (* C03 *)
    ((forall k v, In (k, v) (c_kvs c) -> t_wrote (g_T g) X (entry_of k v)) /\
     c_max c <= t_max (g_T g) X /\ c_gc c <= t_max (g_T g) X /\ c_hb c <= t_hb (g_T g) X) /\
    (* C02 *)
    (forall k w, latest (g_T g) X k w -> lw_ver w <= c_max c ->
       (exists v, kget k (c_kvs c) = Some v /\ entry_of k v = w)
       \/ (mscheduled (lw_st w) = true /\ lw_ver w <= c_gc c /\ kget k (c_kvs c) = None)) /\
    (* C05: the owner's own copy is the truth *)
    (exists co, nm_get (self_id n) (cs_nodes (nd_cs n)) = Some co /\
                c_max co = t_max (g_T g) (self_id n) /\ c_hb co = t_hb (g_T g) (self_id n)).
Proof.
  intros zc zc_len g Hr a n X c Hn Hc.
  destruct (creachable_exact zc zc_len g Hr) as [[Hg _] He _].
  destruct (gi_nodes g Hg a n Hn) as [_ Hint Hown]. destruct (Hint X c Hc) as [A B C D].
  split; [auto|]. split; [|exact Hown].
  intros k w Hl Hle. destruct (He a n Hn X c Hc) as [Hh Hco].
  destruct (hold_compl_exact _ _ _ Hh Hco k w Hl Hle) as [(v & Hv & Hev)|H]; [left|right; exact H].
  destruct Hl as (_ & Hk & _). rewrite Hk in *. exists v. auto.
Qed.
Print Assumptions C18_honest_catchups_keep_every_copy_integral_and_exact.

(* ... and the invariants of the failure detector and of the removed-member memory (C12, C13, C16)
   hold in all those states too: live and dead stay disjoint and sorted, the local node is in
   neither; the detector holds no state (live, dead, sampling window) about a member the node holds
   no copy of — a catch-up creates at most an empty window, for a member it has just installed —;
   the memory has distinct keys and never lists a held member; the watch channel keeps its shape. *)
Theorem C18_honest_catchups_keep_the_detector_invariants : forall zc,
  (forall b c, zc b = Some c -> len c <= len b) -> forall g, creachable zc g ->
  forall a n, node_at g a = Some n ->
    fd_inv (nd_fd n) /\ fd_self_free n /\
    (forall i, nm_get i (cs_nodes (nd_cs n)) = None ->
       is_mem i (fd_live (nd_fd n)) = false /\ dm_get i (fd_dead (nd_fd n)) = None /\ wm_get i (fd_samples (nd_fd n)) = None) /\
    (NoDup (map fst (cs_gcn (nd_cs n))) /\
     forall i c, nm_get i (cs_nodes (nd_cs n)) = Some c -> last_heartbeat_if_deleted (nd_cs n) i = None) /\
    watch_shape (nd_prev n) (nd_watch n).
Proof.
  intros zc zc_len g Hr a n Hn.
  destruct (creachable_fd_all zc zc_len g Hr a n Hn) as [[Hf Hs] [_ Hk] Hm Hw].
  split; [exact Hf|]. split; [exact Hs|]. split; [|split; [exact Hm|exact Hw]].
  intros i Hnone.
  assert (Hnm : ~ mentions (nd_fd n) i) by (intros Hx; apply (Hk i Hx); exact Hnone).
  split; [|split].
  - destruct (is_mem i (fd_live (nd_fd n))) eqn:E; [exfalso; apply Hnm; left; exact E|reflexivity].
  - destruct (dm_get i (fd_dead (nd_fd n))) eqn:E; [exfalso; apply Hnm; right; left; rewrite E; discriminate|reflexivity].
  - destruct (wm_get i (fd_samples (nd_fd n))) eqn:E; [exfalso; apply Hnm; right; right; rewrite E; discriminate|reflexivity].
Qed.
Print Assumptions C18_honest_catchups_keep_the_detector_invariants.

(* what may be fed: any copy any node holds, at the moment it is fetched or at any later moment *)
Theorem C18_fetched_states_stay_honest : forall zc,
  (forall b c, zc b = Some c -> len c <= len b) -> forall g0 g b nb X c,
  creachable zc g0 -> node_at g0 b = Some nb -> nm_get X (cs_nodes (nd_cs nb)) = Some c ->
  csteps zc g0 g -> snap_ok (g_T g) X c.
Proof.
  intros zc zc_len g0 g b nb X c Hr Hb Hc Hss.
  pose proof (held_copy_is_snapshot g0 b nb X c (creachable_exact zc zc_len g0 Hr) Hb Hc) as Hs.
  apply (snapshot_stays_honest zc zc_len g0 g X c Hr Hss Hs).
Qed.
Print Assumptions C18_fetched_states_stay_honest.

(* an honest catch-up about the node itself is a no-op (single writer, C05): nothing changes and no
   event fires — the owner is at least as advanced as any snapshot of itself *)
Theorem C18_honest_catchup_about_self_is_noop : forall zc,
  (forall b c, zc b = Some c -> len c <= len b) -> forall g a n s n' evs,
  creachable zc g -> node_at g a = Some n -> snap_ok (g_T g) (self_id n) s ->
  reset_node_state_if_update n (self_id n) (c_kvs s) (c_max s) (c_gc s) = Ok (n', evs) ->
  n' = n /\ evs = [].
Proof.
  intros zc zc_len g a n s n' evs Hr Hn Hs Hrun.
  apply (catchup_about_self_is_noop (g_T g) n s n' evs); [|exact Hs|exact Hrun].
  apply nx_of_ginve with (a := a); [apply (creachable_exact zc zc_len g Hr)|exact Hn].
Qed.
Print Assumptions C18_honest_catchup_about_self_is_noop.

(* non-vacuity: a reachable state with a catch-up step that goes through (node 1 is fed node 0's
   copy of itself) *)
Definition ex_zc : bytes -> option bytes := fun _ => None.
Lemma ex_zc_len : forall b c, ex_zc b = Some c -> len c <= len b.
Proof. discriminate. Qed.
Definition ex_fdc := mkFdCfg 8 1 1000 10000 5000 100000 50000.
Definition ex_cfg (nm : byte) := mkCfg (mkId [nm] 0 (V4 1 1)) [x63] ex_fdc 10 PNone false.
Definition ex_idA := mkId [x41] 0 (V4 1 1).
Definition ex_nA := new_node (ex_cfg x41) [([x6b], [x31])].
Definition ex_nB := new_node (ex_cfg x42) [].
Definition ex_s : copy := match nm_get ex_idA (cs_nodes (nd_cs ex_nA)) with Some c => c | None => new_copy end.
Definition ex_nB' : node :=
  match reset_node_state_if_update ex_nB ex_idA (c_kvs ex_s) (c_max ex_s) (c_gc ex_s) with
  | Ok (n', _) => n' | _ => ex_nB end.
Definition ex_evs : list mevent :=
  match reset_node_state_if_update ex_nB ex_idA (c_kvs ex_s) (c_max ex_s) (c_gc ex_s) with
  | Ok (_, evs) => evs | _ => [] end.
Example C18_catchup_step_exists :
  exists g nb c, creachable ex_zc g /\ node_at g 1 = Some nb /\
    nm_get ex_idA (cs_nodes (nd_cs nb)) = Some c /\ c_max c = 1 /\ kget [x6b] (c_kvs c) <> None.
Proof.
  pose (g1 := mkG (with_nodes (g_w g_init) (w_nodes (g_w g_init) ++ [ex_nA])) (g_sent g_init)
                  (sync_truth (g_T g_init) (cf_id (ex_cfg x41)) (own_copy ex_nA))).
  assert (H1 : creachable ex_zc g1).
  { eapply CR_step; [apply CR_init|]. apply CS_gossip. apply (GS_join ex_zc true g_init (ex_cfg x41) [([x6b], [x31])]).
    intros a n H. destruct a; discriminate. }
  pose (g2 := mkG (with_nodes (g_w g1) (w_nodes (g_w g1) ++ [ex_nB])) (g_sent g1)
                  (sync_truth (g_T g1) (cf_id (ex_cfg x42)) (own_copy ex_nB))).
  assert (H2 : creachable ex_zc g2).
  { eapply CR_step; [exact H1|]. apply CS_gossip. apply (GS_join ex_zc true g1 (ex_cfg x42) []).
    intros a n H. destruct a as [|[|a]]; try discriminate. injection H as <-. vm_compute. discriminate. }
  assert (Hs : snap_ok (g_T g2) ex_idA ex_s).
  { apply (held_copy_is_snapshot g2 0 ex_nA ex_idA ex_s (creachable_exact ex_zc ex_zc_len g2 H2)); vm_compute; reflexivity. }
  pose (g3 := mkG (with_nodes (g_w g2) (set_nth (w_nodes (g_w g2)) 1 ex_nB')) (g_sent g2) (g_T g2)).
  assert (H3 : creachable ex_zc g3).
  { eapply CR_step; [exact H2|]. apply (CS_catchup ex_zc g2 1 ex_nB ex_idA ex_s ex_nB' ex_evs); [reflexivity|exact Hs|].
    vm_compute. reflexivity. }
  exists g3, ex_nB'. eexists. split; [exact H3|]. split; [reflexivity|]. split; [vm_compute; reflexivity|].
  split; [reflexivity|]. vm_compute. discriminate.
Qed.

(* ---- the tie of the decision guards to the sources (GuardTie.v; see C14.v for the scheme):
   the model function is the decision tree over the model's guards g_x, and each g_x cuts its
   operands' space along the same boundary as rs_x, the translation of today's Rust expression
   (regenerated on every run by tools/guards.py).  A source change that moves a boundary breaks
   this theorem on the next run. ---- *)
Theorem C18_catchup_guards_are_the_source_guards :
  ((forall cmax mx, rs_catchup_uptodate cmax mx = g_catchup_uptodate cmax mx) \/
   (forall cmax mx, rs_catchup_uptodate cmax mx = negb (g_catchup_uptodate cmax mx))) /\
  ((forall mx cgc, rs_catchup_obsolete mx cgc = g_catchup_obsolete mx cgc) \/
   (forall mx cgc, rs_catchup_obsolete mx cgc = negb (g_catchup_obsolete mx cgc))) /\
  (* the frontier an accepted catch-up leaves: the larger of the supplied and the own watermark / max version *)
  (forall gc cgc mx cmax, rs_catchup_new_gc gc cgc mx cmax = g_catchup_new_gc gc cgc) /\
  (forall gc cgc mx cmax, rs_catchup_new_max gc cgc mx cmax = g_catchup_new_max mx cmax).
Proof. exact (conj tie_catchup_uptodate (conj tie_catchup_obsolete (conj tie_catchup_new_gc tie_catchup_new_max))). Qed.
Print Assumptions C18_catchup_guards_are_the_source_guards.
