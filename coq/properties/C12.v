(* C12 — Dead members are quarantined, then removed, and not revived by stale gossip. *)
From Coq Require Import Lia ZArith.
From ChitchatModel Require Import Base SMap Ids Bytes Params NodeState Stream DeltaWire Message Cluster
  FD Chitchat SMap_lemmas Cluster_lemmas Chitchat_lemmas FD_lemmas Inv Compute_lemmas NodeInv
  Prefix_lemmas Liveness_lemmas World Truth NodeTruth Weak Reach ReachFD Revive MemInv ReachMem FdKnown GuardsGen GuardTie LruBound ReachLru.

(* one classification step: the detector's sets stay disjoint (and sorted), the member is put in
   exactly one of them, nobody else moves, and a member already dead keeps the instant of the
   FIRST evaluation of its current dead phase *)
Theorem C12_classification_step : forall cfg now f i oracle,
  fd_inv f ->
  let f' := fd_update_node_liveness cfg now f i oracle in
  fd_inv f' /\
  (is_mem i (fd_live f') = true /\ dm_get i (fd_dead f') = None \/
   is_mem i (fd_live f') = false /\ dm_get i (fd_dead f') <> None) /\
  (forall j, j <> i -> is_mem j (fd_live f') = is_mem j (fd_live f) /\ dm_get j (fd_dead f') = dm_get j (fd_dead f)) /\
  (forall t, dm_get i (fd_dead f) = Some t -> dm_get i (fd_dead f') = Some t \/ dm_get i (fd_dead f') = None).
Proof. exact fd_update_node_liveness_spec. Qed.
Print Assumptions C12_classification_step.

(* a whole evaluation: live and dead stay disjoint; the local node is in neither detector set
   (it is always reported live: [live_nodes] puts it first) and is never removed; every other
   member still known afterwards is in exactly one of the two sets *)
Theorem C12_after_evaluation : forall now n oracle,
  node_inv n -> fd_inv (nd_fd n) -> fd_self_free n ->
  let n' := update_nodes_liveness now n oracle in
  fd_inv (nd_fd n') /\ fd_self_free n' /\
  In (self_id n') (live_nodes n') /\
  (forall i c, nm_get i (cs_nodes (nd_cs n')) = Some c -> i <> self_id n -> exactly_one (nd_fd n') i) /\
  nm_get (self_id n) (cs_nodes (nd_cs n')) = nm_get (self_id n) (cs_nodes (nd_cs n)).
Proof.
  intros now n oracle Hi Hf Hs.
  destruct (update_nodes_liveness_classifies now n oracle Hi Hf Hs) as (H1 & H2 & H3 & H4 & _).
  cbn zeta. split; [exact H1|]. split; [exact H2|]. split; [left; reflexivity|]. split; assumption.
Qed.
Print Assumptions C12_after_evaluation.

(* quarantine: members scheduled for deletion (dead for more than half the grace period, as
   computed by the code: time_of_death + half < now) appear in no digest and no delta *)
Theorem C12_scheduled_means_dead_for_half_grace : forall cfg now f i,
  dmap_sorted (fd_dead f) ->
  (In i (fd_scheduled_for_deletion cfg now f) <->
   exists t, dm_get i (fd_dead f) = Some t /\ (t + half_grace cfg < now)%Z).
Proof.
  intros cfg now f i Hs. unfold fd_scheduled_for_deletion. rewrite in_map_iff. split.
  - intros ([j t] & <- & Hin). apply filter_In in Hin as [Hin Ht]. cbn [fst snd] in *.
    exists t. split; [|apply Z.ltb_lt; exact Ht].
    apply (sorted_in_get id_cmp id_cmp_eq id_cmp_antisym id_cmp_trans); assumption.
  - intros (t & Hg & Ht). exists (i, t). split; [reflexivity|]. apply filter_In.
    split; [apply (sm_get_in id_cmp id_cmp_eq); exact Hg|apply Z.ltb_lt; exact Ht].
Qed.
Print Assumptions C12_scheduled_means_dead_for_half_grace.

Theorem C12_quarantine_digest : forall now n i g,
  (match create_syn_message now n with Syn _ dg => In (i, g) dg | _ => False end) ->
  in_ids i (scheduled now n) = false.
Proof. intros now n i g. cbn. apply compute_digest_excludes. Qed.
Print Assumptions C12_quarantine_digest.

Theorem C12_quarantine_delta : forall cs dg sched mtu x,
  cluster_inv cs -> delta_shape cs dg sched mtu x ->
  forall nd, In nd (nds x) -> in_ids (d_id nd) sched = false.
Proof.
  intros cs dg sched mtu x Hi Hs nd Hin.
  destruct (computed_delta_nodes cs dg sched mtu x Hi Hs nd Hin) as (n & j & mv & _ & -> & H & _).
  exact H.
Qed.
Print Assumptions C12_quarantine_delta.

(* removal: a member whose time of death is a full grace period old is removed by the next
   evaluation (unless that evaluation finds it alive again; stated for a member without evidence) *)
Theorem C12_removed_at_grace : forall now n oracle i t,
  node_inv n -> fd_inv (nd_fd n) -> i <> self_id n ->
  (match wm_get i (fd_samples (nd_fd n)) with Some w => wd_vals w = [] | None => True end) ->
  nm_get i (cs_nodes (nd_cs n)) <> None ->
  dm_get i (fd_dead (nd_fd n)) = Some t -> (t + dead_grace (cf_fd (nd_cfg n)) <= now)%Z ->
  nm_get i (cs_nodes (nd_cs (update_nodes_liveness now n oracle))) = None.
Proof. exact dead_for_grace_is_removed. Qed.
Print Assumptions C12_removed_at_grace.

(* no revival: a removed member is re-created only by a heartbeat strictly higher than the one
   remembered at removal; anything else leaves the node exactly as it was; and the re-created
   copy starts without any detector evidence (its first heartbeat is not reported: C11) *)
Theorem C12_no_revival_by_stale_gossip : forall now n i hb h,
  i <> self_id n -> nm_get i (cs_nodes (nd_cs n)) = None ->
  last_heartbeat_if_deleted (nd_cs n) i = Some h -> (hb <= h)%N ->
  report_heartbeat now n i hb = n.
Proof. exact stale_gossip_does_not_revive. Qed.
Print Assumptions C12_no_revival_by_stale_gossip.

Theorem C12_removal_remembers_heartbeat : forall cs i c,
  nm_get i (cs_nodes cs) = Some c -> last_heartbeat_if_deleted (remove_node cs i) i = Some (c_hb c).
Proof.
  intros cs i c H. unfold remove_node, last_heartbeat_if_deleted. rewrite H. cbn [cs_gcn].
  unfold lru_push. destruct (lru_peek i (cs_gcn cs)); cbn [lru_peek]; rewrite id_eqb_refl; reflexivity.
Qed.
Print Assumptions C12_removal_remembers_heartbeat.

(* "always": in every reachable state of the global step relation (any schedule of gossip among
   any nodes, any clock advances, evaluations at any time with any detector verdicts), on every
   node: live and dead are disjoint (and sorted), the local node is in neither detector set — it is
   reported live by construction — and it still holds its own copy (never removed) *)
Theorem C12_always_disjoint_and_self_live : forall zc,
  (forall b c, zc b = Some c -> len c <= len b) -> forall strict g, reachable zc strict g ->
  forall a n, node_at g a = Some n ->
    fd_inv (nd_fd n) /\ fd_self_free n /\ In (self_id n) (live_nodes n) /\
    exists c, nm_get (self_id n) (cs_nodes (nd_cs n)) = Some c.
Proof.
  intros zc zc_len strict g Hr a n Hn.
  destruct (reachable_fd_good zc zc_len strict g Hr a n Hn) as [Hf Hs].
  destruct (reachable_inv zc zc_len strict g Hr) as [Hg _].
  destruct (gi_nodes g Hg a n Hn) as [_ _ (c & Hc & _)].
  split; [exact Hf|]. split; [exact Hs|]. split; [left; reflexivity|exists c; exact Hc].
Qed.
Print Assumptions C12_always_disjoint_and_self_live.

(* "once removed it is recreated only by a heartbeat strictly higher than the one known at
   removal", for a whole message and every message — honest, stale, duplicated, relayed or forged:
   a member that is absent from the map and remembered with heartbeat [last] is still absent and
   remembered after the message, unless the message's digest names it with a heartbeat strictly
   above [last].  Deltas never create a member; equal or lower heartbeats change nothing.  (The C12
   recreation monitor evaluates exactly this on the implementation's dumps.) *)
Theorem C12_removed_member_recreated_only_by_higher_heartbeat : forall zc now n m ord n' reply evs i last,
  i <> self_id n -> remembered n i last ->
  process_message zc now n m ord = Ok (n', reply, evs) ->
  remembered n' i last \/ exists g, In (i, g) (digest_of m) /\ last < g_hb g.
Proof. exact removed_member_recreated_only_by_higher_heartbeat. Qed.
Print Assumptions C12_removed_member_recreated_only_by_higher_heartbeat.

(* The removed-member memory in every reachable state, on every node: its keys are distinct and it
   never lists a member the node currently holds (creation pops the entry, removal pushes it).
   With C12_removal_remembers_heartbeat (the value pushed is the heartbeat held at removal) these
   are the two rules of the C12 memory monitor. *)
Theorem C12_memory_never_lists_a_held_member : forall zc,
  (forall b c, zc b = Some c -> len c <= len b) -> forall strict g,
  reachable zc strict g -> forall a n, node_at g a = Some n ->
    NoDup (map fst (cs_gcn (nd_cs n))) /\
    forall i c, nm_get i (cs_nodes (nd_cs n)) = Some c -> last_heartbeat_if_deleted (nd_cs n) i = None.
Proof. exact reachable_mem. Qed.
Print Assumptions C12_memory_never_lists_a_held_member.

(* "then removed": in every reachable state, on every node, the failure detector holds no state
   about a member the node holds no copy of — a member removed at the end of its grace period (or
   never known) is not live, not dead and owns no sampling window; whatever is said about it later
   starts from nothing (with C11_first_value_is_not_evidence: one report is no evidence). *)
Theorem C12_detector_forgets_removed_members : forall zc,
  (forall b c, zc b = Some c -> len c <= len b) -> forall strict g, reachable zc strict g ->
  forall a n i, node_at g a = Some n -> nm_get i (cs_nodes (nd_cs n)) = None ->
    is_mem i (fd_live (nd_fd n)) = false /\ dm_get i (fd_dead (nd_fd n)) = None /\
    wm_get i (fd_samples (nd_fd n)) = None.
Proof.
  intros zc zc_len strict g Hr a n i Hn Hnone.
  destruct (reachable_fd_known zc zc_len strict g Hr a n Hn) as [_ Hk].
  assert (Hnm : ~ mentions (nd_fd n) i) by (intros Hm; apply (Hk i Hm); exact Hnone).
  split; [|split].
  - destruct (is_mem i (fd_live (nd_fd n))) eqn:E; [exfalso; apply Hnm; left; exact E|reflexivity].
  - destruct (dm_get i (fd_dead (nd_fd n))) eqn:E; [exfalso; apply Hnm; right; left; rewrite E; discriminate|reflexivity].
  - destruct (wm_get i (fd_samples (nd_fd n))) eqn:E; [exfalso; apply Hnm; right; right; rewrite E; discriminate|reflexivity].
Qed.
Print Assumptions C12_detector_forgets_removed_members.

(* How long "remembered" lasts (the premise of the recreation rule above).  The removed-member memory
   is an LRU of GARBAGE_COLLECTED_NODE_HISTORY_SIZE entries (Params.P_GC_HISTORY, regenerated from
   lib.rs): removal of a member pushes (id, heartbeat held), creation of a member pops its entry.
   For every sequence of such operations: the memory never exceeds the capacity; and the entry
   pushed when member [k] was removed is still there, with the same heartbeat, after ANY sequence of
   removals / creations of other members containing fewer than the capacity removals — so a stale
   heartbeat can recreate a removed member only after that many further removals.  The bound is
   tight (LruBound.lru_evicts_after_cap_pushes). *)
Theorem C12_memory_is_bounded_and_retains_until_capacity_further_removals :
  (forall cs i, (length (cs_gcn cs) <= gc_history_cap)%nat ->
     (length (cs_gcn (remove_node cs i)) <= gc_history_cap)%nat /\
     (length (cs_gcn (node_state_mut_or_init cs i)) <= gc_history_cap)%nat) /\
  (forall ops l, (length l <= gc_history_cap)%nat ->
     (length (fold_left (lru_apply gc_history_cap) ops l) <= gc_history_cap)%nat) /\
  (forall k v l ops, (forall o, In o ops -> lru_op_key o <> k) -> (lru_pushes ops < gc_history_cap)%nat ->
     lru_peek k (fold_left (lru_apply gc_history_cap) ops (lru_push gc_history_cap k v l)) = Some v).
Proof.
  assert (Hc : (0 < gc_history_cap)%nat) by (unfold gc_history_cap; vm_compute; lia).
  split; [|split].
  - intros cs i Hl. split.
    + unfold remove_node. destruct (nm_get i (cs_nodes cs)); cbn [cs_gcn]; [apply lru_push_length; assumption|exact Hl].
    + unfold node_state_mut_or_init. destruct (nm_get i (cs_nodes cs)); cbn [cs_gcn]; [exact Hl|].
      unfold lru_pop. pose proof (lru_remove_length i (cs_gcn cs)). lia.
  - intros ops l Hl. apply lru_never_exceeds_capacity; assumption.
  - intros k v l ops Hk Hp. apply lru_pushed_entry_retained; assumption.
Qed.
Print Assumptions C12_memory_is_bounded_and_retains_until_capacity_further_removals.

(* ... and the size bound holds in every reachable state, on every node: over every schedule of the
   global relation (joins, local writes, GC passes, heartbeats, evaluations with any detector
   verdicts, message deliveries in any order with loss and duplication) the removed-member memory
   never holds more than GARBAGE_COLLECTED_NODE_HISTORY_SIZE entries. *)
Theorem C12_memory_bounded_in_every_reachable_state : forall zc,
  (forall b c, zc b = Some c -> len c <= len b) -> forall strict g, reachable zc strict g ->
  forall a n, node_at g a = Some n -> (length (cs_gcn (nd_cs n)) <= gc_history_cap)%nat.
Proof. intros zc _ strict g Hr a n Hn. exact (reachable_memory_bounded zc strict g Hr a n Hn). Qed.
Print Assumptions C12_memory_bounded_in_every_reachable_state.

(* ---- the tie of the decision guards to the sources (GuardTie.v; see C14.v for the scheme):
   the model function is the decision tree over the model's guards g_x, and each g_x cuts its
   operands' space along the same boundary as rs_x, the translation of today's Rust expression
   (regenerated on every run by tools/guards.py).  A source change that moves a boundary breaks
   this theorem on the next run. ---- *)
Theorem C12_removal_guards_are_the_source_guards :
  (forall cfg now f, snd (fd_garbage_collect cfg now f) = map fst (filter (fun e => g_fd_gc now (snd e) (dead_grace cfg)) (fd_dead f))) /\
  (forall cfg now f, fd_scheduled_for_deletion cfg now f = map fst (filter (fun e => g_fd_sched now (snd e) (half_grace cfg)) (fd_dead f))) /\
  ((forall now tod grace, rs_fd_gc now tod grace = g_fd_gc now tod grace) \/
   (forall now tod grace, rs_fd_gc now tod grace = negb (g_fd_gc now tod grace))) /\
  ((forall now tod half, rs_fd_sched now tod half = g_fd_sched now tod half) \/
   (forall now tod half, rs_fd_sched now tod half = negb (g_fd_sched now tod half))) /\
  ((forall last hb, rs_recreate last hb = g_recreate last hb) \/ (forall last hb, rs_recreate last hb = negb (g_recreate last hb))).
Proof. exact (conj fd_collects_by_the_guard (conj fd_schedules_by_the_guard (conj tie_fd_gc (conj tie_fd_sched tie_recreate)))). Qed.
Print Assumptions C12_removal_guards_are_the_source_guards.
