(* C01 — Gossip converges: every replica reaches the owner's frontier.

   PARTIAL (see DESIGN.md section 5, C01).  Proved here, for every compressor, budget, shuffle
   outcome, pair of well-formed nodes and digest:
     - the second sentence of the property (handshake progress): when the responder holds
       something deliverable for the initiator's digest and the header of the first stale member
       plus one operation fit what the digest left of the datagram ("the digest and any single
       key-value together fit"), the SYN-ACK starts with a non-empty node delta for that member,
       and the initiator, if its copy of that member is as it advertised, applies it: the copy's
       (GC watermark, max version) strictly increases and none of its copies moves back;
     - deliverable data exists exactly when some non-quarantined member is ahead of the digest;
     - the frontier of every copy in every reachable state is bounded by its owner's max version,
       so strict advances are bounded in number (measure [frontier_measure]).
     - the potential argument (Potential.v): processing any message never lowers a node's
       potential, a productive exchange raises it by at least one, and along any history of a node
       the number of rises is at most (members known) * (V+1)^2.
       C01_behind_implies_deliverable closes the per-pair loop: a quiet node that is behind a
       peer on some unquarantined member gets a non-empty offer from it.
     - the same over the global step relation (Converge.v): from every reachable state, no step
       but a liveness evaluation lowers the world potential (v); a complete loss-free handshake by a
       quiet initiator that is behind its responder raises it by one (vi); hence along any
       schedule at most (copies held)*(V+1)^2 steps — in particular handshakes by lagging
       initiators — can raise it (vii).
     - fair rounds (Rounds.v), closing the argument: a ROUND is any sequence of complete loss-free
       handshakes; it is FAIR when it contains a handshake a -> b for every ordered pair of distinct
       nodes.  From every reachable state of a quiet one-cluster world (nobody quarantines or
       remembers a removed member) with room in every responder's datagram, a fair round started
       while some node is behind another raises the world potential (viii); hence at most
       (copies held)*(V+1)^2 fair rounds can start unconverged (ix): after that many fair rounds
       without a write every node has every other node's max version for every member, and by
       C02 (exactness up to the frontier) the same key-values.
     - arbitrary schedules (Schedules.v): the same with NOISE allowed anywhere between the
       handshakes — any step of the global relation except a join: deliveries of stale, duplicated
       or reordered messages, SYNs never answered, heartbeats, clock advances, tombstone GC, local
       writes, and liveness evaluations by nodes that quarantine nobody (they provably remove
       nobody) — and quietness required only of the two nodes of a handshake at its start (x),
       (xi).  "Fair" then reads: every ordered pair completes one handshake per schedule.
   Not covered by a theorem: handshakes whose initiator or responder quarantines a member at that
   moment (there the statement is false: KF-2 below), evaluations that remove a member, and a
   handshake whose four steps are interleaved with other steps (it then counts as noise).
   The whole is exercised by
   the correspondence suite `conv` (fair rounds after arbitrary histories, on the implementation
   and the model) whose monitor checks exactly the two consequences: every fair round of a
   non-converged world strictly increases the measure, and the world converges.
   The premise "its copy is as it advertised" excludes the known class KF-2 (wasted offer: the
   initiator quarantines the member, omits it from its digest and discards the answer). *)
From Coq Require Import Lia Permutation.
From ChitchatModel Require Import Base SMap Ids Bytes Params NodeState Stream DeltaWire Message Cluster
  FD Chitchat World SMap_lemmas NodeState_lemmas Builder_lemmas Agreement Inv DeltaRefine Compute_lemmas
  Prefix_lemmas NodeInv Codec_lemmas Emit_lemmas Truth NodeTruth Weak Reach Progress Quiet Potential GExec Converge Rounds Schedules.

Section C01.
  Variable zc : bytes -> option bytes.
  Hypothesis zc_len : forall b c, zc b = Some c -> len c <= len b.

  (* deliverable data: some member the responder does not quarantine is ahead of the digest *)
  Theorem C01_deliverable_iff_ahead : forall cs dg sched,
    (exists n, In n (stale_nodes cs dg sched)) <->
    (exists X c, In (X, c) (cs_nodes cs) /\ in_ids X sched = false /\ snd (advertised dg X) < c_max c).
  Proof. exact stale_nodes_nonempty_iff. Qed.

  (* the responder's side *)
  Theorem C01_first_stale_member_is_offered : forall now b cluster dg ord b' dgb x evs n rest,
    node_inv b ->
    process_message zc now b (Syn cluster dg) ord = Ok (b', Some (SynAck dgb x), evs) ->
    let b1 := report_heartbeats_in_digest now (update_self_heartbeat b) dg in
    let sched := scheduled now b1 in
    let mtu := P_MAX_UDP - (P_RESERVE_SYNACK + digest_len (compute_digest (nd_cs b1) sched)) in
    arrange ord (stale_nodes (nd_cs b1) dg sched) = Some (n :: rest) ->
    P_MIN_MTU <= mtu -> room mtu n ->
    exists j mv ps dgc dmax,
      nds x = node_piece n j mv :: ps /\ nonempty_piece n j mv /\
      In n (stale_nodes (nd_cs b1) dg sched) /\
      advertised dg (sn_id n) = (dgc, dmax) /\
      mk_node_delta (sn_id n) (sn_copy n) dgc dmax j mv = Some (node_piece n j mv) /\
      Forall nd_bounded ps /\ dlen x <= mtu.
  Proof. exact (synack_offers_first_stale zc zc_len). Qed.

  (* the complete SYN / SYN-ACK exchange: strict progress at the initiator, no regress *)
  Theorem C01_exchange_progress : forall now now' a b cluster dg ord ord' b' dgb x evs n rest r,
    node_inv a -> node_inv b ->
    process_message zc now b (Syn cluster dg) ord = Ok (b', Some (SynAck dgb x), evs) ->
    let b1 := report_heartbeats_in_digest now (update_self_heartbeat b) dg in
    let sched := scheduled now b1 in
    let mtu := P_MAX_UDP - (P_RESERVE_SYNACK + digest_len (compute_digest (nd_cs b1) sched)) in
    (* b holds something deliverable; n is the first stale member in b's iteration order *)
    arrange ord (stale_nodes (nd_cs b1) dg sched) = Some (n :: rest) ->
    (* the digest left room for one member header and one operation *)
    P_MIN_MTU <= mtu -> room mtu n ->
    (* a's copy of that member, when the SYN-ACK arrives, is as a's SYN advertised *)
    let a1 := report_heartbeats_in_digest now' (update_self_heartbeat a) dgb in
    nm_get (sn_id n) (cs_nodes (nd_cs a1)) = Some r -> (c_gc r, c_max r) = advertised dg (sn_id n) ->
    process_message zc now' a (SynAck dgb x) ord' = Err \/
    exists a' reply evs' r',
      process_message zc now' a (SynAck dgb x) ord' = Ok (a', reply, evs') /\
      nm_get (sn_id n) (cs_nodes (nd_cs a')) = Some r' /\ frontier_lt r r' /\
      (forall i c, nm_get i (cs_nodes (nd_cs a1)) = Some c ->
                   exists c', nm_get i (cs_nodes (nd_cs a')) = Some c' /\ frontier_le c c').
  Proof.
    intros now now' a b cluster dg ord ord' b' dgb x evs n rest r Ha Hb Hrun b1 sched mtu Harr Hmin Hroom a1 Hr Hadv.
    destruct (synack_offers_first_stale zc zc_len now b cluster dg ord b' dgb x evs n rest Hb Hrun Harr Hmin Hroom)
      as (j & mv & ps & dgc & dmax & Hnds & Hne & Hin & Hd & Hmk & Hps & _).
    assert (Hwf : delta_wf x).
    { destruct (reply_struct zc zc_len now b (Syn cluster dg) ord b' _ evs Hb I Hrun) as [_ [_ Hn]].
      eapply Forall_impl; [apply nd_normal_wf|exact Hn]. }
    apply (synack_applied_advances zc zc_len now' a dgb x ord' n j mv ps dgc dmax r Ha Hwf Hnds Hmk).
    - eapply nonempty_piece_has_op; eauto.
    - exact Hr.
    - rewrite Hadv. exact Hd.
  Qed.

  (* The same with the "as advertised" premise discharged: an initiator that quarantines nobody
     (no member scheduled for deletion) and remembers no removed member — i.e. outside the known
     class KF-2 — ALWAYS makes strict progress in a complete SYN / SYN-ACK exchange with a
     responder that holds something deliverable for it, whether or not it knew the offered member
     before.  ([sn_id n <> self_id a]: a peer is never ahead of a node about the node itself —
     C05_owner_is_most_advanced in every reachable state.) *)
  Theorem C01_quiet_exchange_progress : forall now now' a b ord ord' b' dgb x evs n rest,
    node_inv a -> node_inv b -> no_memory a -> scheduled now a = [] ->
    process_message zc now b (create_syn_message now a) ord = Ok (b', Some (SynAck dgb x), evs) ->
    let dg := compute_digest (nd_cs a) [] in
    let b1 := report_heartbeats_in_digest now (update_self_heartbeat b) dg in
    let sched := scheduled now b1 in
    let mtu := P_MAX_UDP - (P_RESERVE_SYNACK + digest_len (compute_digest (nd_cs b1) sched)) in
    arrange ord (stale_nodes (nd_cs b1) dg sched) = Some (n :: rest) ->
    P_MIN_MTU <= mtu -> room mtu n ->
    sn_id n <> self_id a ->
    process_message zc now' a (SynAck dgb x) ord' = Err \/
    exists a' reply evs' r',
      process_message zc now' a (SynAck dgb x) ord' = Ok (a', reply, evs') /\
      nm_get (sn_id n) (cs_nodes (nd_cs a')) = Some r' /\
      lex_lt_p (match nm_get (sn_id n) (cs_nodes (nd_cs a)) with Some c => (c_gc c, c_max c) | None => (0, 0) end)
               (monotonic_property r') /\
      (forall i c, nm_get i (cs_nodes (nd_cs a)) = Some c ->
                   exists c', nm_get i (cs_nodes (nd_cs a')) = Some c' /\ frontier_le c c').
  Proof. exact (quiet_exchange_progress zc zc_len). Qed.

  (* the ACK direction of the same handshake: the initiator's answer to the SYN-ACK starts with a
     non-empty node delta for the first member the responder lacks, and the responder, whose copy
     is as its SYN-ACK digest advertised, applies it with strict progress and no regress *)
  Theorem C01_ack_offers_first_stale : forall now a dgb x ord a' y evs n rest,
    node_inv a -> delta_wf x ->
    process_message zc now a (SynAck dgb x) ord = Ok (a', Some (Ack y), evs) ->
    let mtu := P_MAX_UDP - P_RESERVE_ACK in
    arrange ord (stale_nodes (nd_cs a') dgb (scheduled now a')) = Some (n :: rest) ->
    room mtu n ->
    exists j mv ps dgc dmax,
      nds y = node_piece n j mv :: ps /\ nonempty_piece n j mv /\
      In n (stale_nodes (nd_cs a') dgb (scheduled now a')) /\
      advertised dgb (sn_id n) = (dgc, dmax) /\
      mk_node_delta (sn_id n) (sn_copy n) dgc dmax j mv = Some (node_piece n j mv) /\
      Forall nd_bounded ps /\ dlen y <= mtu.
  Proof. exact (ack_offers_first_stale zc zc_len). Qed.

  Theorem C01_ack_applied_advances : forall now b y n j mv ps dgc dmax r,
    delta_wf y ->
    let b0 := update_self_heartbeat b in
    nds y = node_piece n j mv :: ps ->
    mk_node_delta (sn_id n) (sn_copy n) dgc dmax j mv = Some (node_piece n j mv) ->
    (d_kvs (node_piece n j mv) <> [] \/ 0 < d_max (node_piece n j mv)) ->
    nm_get (sn_id n) (cs_nodes (nd_cs b0)) = Some r -> (c_gc r, c_max r) = (dgc, dmax) ->
    exists b' evs r',
      process_message zc now b (Ack y) [] = Ok (b', None, evs) /\
      nm_get (sn_id n) (cs_nodes (nd_cs b')) = Some r' /\ frontier_lt r r' /\
      (forall i c, nm_get i (cs_nodes (nd_cs b0)) = Some c ->
                   exists c', nm_get i (cs_nodes (nd_cs b')) = Some c' /\ frontier_le c c').
  Proof. exact (ack_applied_advances zc). Qed.

  (* the per-member agreement behind it: whatever is offered against the receiver's own frontier
     is never refused as inapplicable, and applying it strictly raises the frontier (C14) *)
  Theorem C01_offer_is_applicable : forall now i s r n mv d,
    mk_node_delta i s (c_gc r) (c_max r) n mv = Some d ->
    exists r' st evs, apply_delta now r d = Ok (r', st, evs) /\
      (st <> Reject -> frontier_lt r r').
  Proof. exact agreement_progress. Qed.

  (* bounded: in every reachable state the frontier of every copy is at most its owner's max
     version in both components, so a copy can advance strictly at most (V+1)^2 - 1 times while
     the owner's max version stays V *)
  Theorem C01_frontier_bounded_by_owner : forall strict g, reachable zc strict g ->
    forall a n X c, node_at g a = Some n -> nm_get X (cs_nodes (nd_cs n)) = Some c ->
    let V := t_max (g_T g) X in
    c_gc c <= V /\ c_max c <= V /\ frontier_measure V c <= V * (V + 1) + V.
  Proof.
    intros strict g Hr a n X c Hn Hc V.
    destruct (reachable_inv zc zc_len strict g Hr) as [Hg _].
    destruct (gi_nodes g Hg a n Hn) as [_ Hint _]. destruct (Hint X c Hc) as [_ Hm Hgc _].
    split; [exact Hgc|]. split; [exact Hm|]. apply frontier_measure_bound; assumption.
  Qed.

  (* ---- the potential argument: "within a bounded number of handshakes" ----
     [potential V n] = sum over the copies n holds of (frontier measure + 1). *)
  (* (i) processing ANY grammar-valid message never lowers it: every copy is still there with a
         frontier at least as large *)
  Theorem C01_potential_never_decreases : forall V now n m ord n' reply evs,
    node_inv n -> msg_wf m -> versions_below V n -> versions_below V n' ->
    process_message zc now n m ord = Ok (n', reply, evs) -> potential V n <= potential V n'.
  Proof. exact (potential_never_decreases zc). Qed.

  (* (ii) a complete exchange of a quiet initiator with a responder holding deliverable data
          raises it by at least one *)
  Theorem C01_potential_rises_on_exchange : forall V now now' a b ord ord' b' dgb x evs n rest a' reply evs',
    node_inv a -> node_inv b -> no_memory a -> scheduled now a = [] ->
    process_message zc now b (create_syn_message now a) ord = Ok (b', Some (SynAck dgb x), evs) ->
    let dg := compute_digest (nd_cs a) [] in
    let b1 := report_heartbeats_in_digest now (update_self_heartbeat b) dg in
    let sched := scheduled now b1 in
    let mtu := P_MAX_UDP - (P_RESERVE_SYNACK + digest_len (compute_digest (nd_cs b1) sched)) in
    arrange ord (stale_nodes (nd_cs b1) dg sched) = Some (n :: rest) ->
    P_MIN_MTU <= mtu -> room mtu n -> sn_id n <> self_id a ->
    process_message zc now' a (SynAck dgb x) ord' = Ok (a', reply, evs') ->
    versions_below V a -> versions_below V a' ->
    potential V a + 1 <= potential V a'.
  Proof. exact (potential_rises_on_exchange zc zc_len). Qed.

  (* (iii) along any history of a node — any messages, instants, shuffle outcomes — the number of
           steps that raise its potential, hence the number of productive exchanges it takes part
           in, is at most (members it knows at the end) * (V+1)^2, V bounding every version *)
  Theorem C01_productive_steps_bounded : forall V l nlast,
    history zc l -> Forall node_inv l -> Forall (versions_below V) l -> last l nlast = nlast -> l <> [] ->
    rises (map (potential V) l) <= N.of_nat (length (cs_nodes (nd_cs nlast))) * (V + 1) * (V + 1).
  Proof. exact (productive_steps_bounded zc). Qed.

  (* (iv) not converged => deliverable: if b holds, for a member it does not quarantine, a copy whose
          max version is beyond the quiet node a's (or a does not know the member), b's answer to
          a's SYN has a non-empty list of stale members — so, with (ii), the exchange is productive *)
  Theorem C01_behind_implies_deliverable : forall now a b X cb,
    node_inv b ->
    nm_get X (cs_nodes (nd_cs b)) = Some cb ->
    let dg := compute_digest (nd_cs a) [] in
    let b1 := report_heartbeats_in_digest now (update_self_heartbeat b) dg in
    in_ids X (scheduled now b1) = false ->
    (match nm_get X (cs_nodes (nd_cs a)) with Some ca => c_max ca | None => 0 end) < c_max cb ->
    exists n, In n (stale_nodes (nd_cs b1) dg (scheduled now b1)).
  Proof. exact behind_implies_deliverable. Qed.

  (* ---- the same, over the global step relation (reachable states, all premises about the nodes
          discharged from the reachability invariants) ---- *)
  (* (v) [gpot V g] = sum of the nodes' potentials.  No step other than a liveness evaluation
         lowers it — whatever is delivered, duplicated, reordered, written or collected *)
  Theorem C01_world_potential_never_decreases : forall strict V g g',
    reachable zc strict g -> gstep zc strict g g' -> bounded V g' -> no_eval g g' -> gpot V g <= gpot V g'.
  Proof. intros strict V g g'. exact (gpot_monotone zc zc_len strict V g g'). Qed.

  (* (vi) a complete loss-free handshake a -> b (SYN, SYN-ACK, ACK as four global steps), from ANY
          reachable state in which the initiator a quarantines nobody and remembers no removed
          member, a and b are in the same cluster, a is behind b on some member b does not quarantine,
          and the digest leaves room for one member header and one operation: the world potential
          rises by at least one *)
  Theorem C01_lagging_exchange_raises_potential : forall strict V g a b o1 o2 o3 g' na nb X cb,
    reachable zc strict g -> bounded V g -> a <> b ->
    node_at g a = Some na -> node_at g b = Some nb ->
    no_memory na -> scheduled (w_now (g_w g)) na = [] ->
    cf_cluster (nd_cfg na) = cf_cluster (nd_cfg nb) ->
    let now := w_now (g_w g) in
    let dg := compute_digest (nd_cs na) [] in
    let b1 := report_heartbeats_in_digest now (update_self_heartbeat nb) dg in
    let sched := scheduled now b1 in
    let mtu := P_MAX_UDP - (P_RESERVE_SYNACK + digest_len (compute_digest (nd_cs b1) sched)) in
    nm_get X (cs_nodes (nd_cs nb)) = Some cb -> in_ids X sched = false ->
    (match nm_get X (cs_nodes (nd_cs na)) with Some ca => c_max ca | None => 0 end) < c_max cb ->
    (forall n rest, arrange o1 (stale_nodes (nd_cs b1) dg sched) = Some (n :: rest) -> P_MIN_MTU <= mtu /\ room mtu n) ->
    gfold zc strict g (hs_ops a b o1 o2 o3) = Some g' ->
    gpot V g + 1 <= gpot V g'.
  Proof. intros strict. exact (lagging_exchange_raises zc zc_len strict). Qed.

  (* (vii) along any schedule without liveness evaluations the number of potential-raising steps —
           in particular of handshakes performed by a lagging initiator — is at most the final world
           potential, itself at most (copies held) * (V+1)^2: "within a bounded number of handshakes" *)
  Theorem C01_bounded_number_of_productive_steps : forall strict V l g0 glast,
    gpath zc strict l -> hd g0 l = g0 -> last l glast = glast -> reachable zc strict g0 -> Forall (bounded V) l ->
    rises (map (gpot V) l) + gpot V g0 <= gpot V glast.
  Proof. intros strict. exact (potential_rises_bounded zc zc_len strict). Qed.

  Theorem C01_world_potential_bound : forall strict V g, reachable zc strict g -> bounded V g ->
    gpot V g <= nsum (map (fun n => N.of_nat (length (cs_nodes (nd_cs n))) * (V + 1) * (V + 1)) (w_nodes (g_w g))).
  Proof. intros strict. exact (gpot_bound zc zc_len strict). Qed.

  (* (viii) FAIR ROUND PROGRESS: in a quiet one-cluster world where some node is behind another, a
            round of complete loss-free handshakes covering every ordered pair of nodes — in any
            order, with any shuffles, each responder having room for one header and one operation —
            raises the world potential *)
  Theorem C01_fair_round_progress : forall strict V g es g',
    round_run zc strict g es g' -> fair g es -> unconverged g ->
    reachable zc strict g -> bounded V g' -> quiet_world g -> one_cluster g ->
    gpot V g + 1 <= gpot V g'.
  Proof. intros strict. exact (fair_round_progress zc zc_len strict). Qed.

  (* the same for any sequence of handshakes that merely contains a -> b while a is behind b *)
  Theorem C01_round_progress : forall strict V g es g', round_run zc strict g es g' ->
    reachable zc strict g -> bounded V g' -> quiet_world g -> one_cluster g ->
    forall a b X, behind g a b X -> (exists e, In e es /\ x_a e = a /\ x_b e = b) ->
    gpot V g + 1 <= gpot V g'.
  Proof. intros strict. exact (round_progress zc zc_len strict). Qed.

  (* (ix) CONVERGENCE IN BOUNDED MANY FAIR ROUNDS: k consecutive fair rounds each started unconverged
          raise the potential by k, so k is at most (copies held at the end) * (V+1)^2 *)
  Theorem C01_unconverged_fair_rounds_raise_potential : forall strict V g k g', lagging_rounds zc strict g k g' ->
    reachable zc strict g -> bounded V g' -> quiet_world g -> one_cluster g ->
    gpot V g + N.of_nat k <= gpot V g'.
  Proof. intros strict. exact (lagging_rounds_bounded zc zc_len strict). Qed.

  Theorem C01_unconverged_fair_rounds_bounded : forall strict V g k g', lagging_rounds zc strict g k g' ->
    reachable zc strict g -> bounded V g' -> quiet_world g -> one_cluster g ->
    N.of_nat k <= nsum (map (fun n => N.of_nat (length (cs_nodes (nd_cs n))) * (V + 1) * (V + 1)) (w_nodes (g_w g'))).
  Proof. intros strict. exact (unconverged_fair_rounds_bounded zc zc_len strict). Qed.

  (* if the potential did not move over a run of handshake steps, nobody's frontier moved *)
  Theorem C01_unchanged_potential_means_unchanged_frontiers : forall strict V ops g g',
    forallb xop ops = true -> gfold zc strict g ops = Some g' -> reachable zc strict g -> bounded V g' ->
    gpot V g = gpot V g' -> world_same g g'.
  Proof. intros strict V ops g g' Hx Hrun Hr Hb. apply (xrun zc zc_len strict V ops g g' Hx Hrun Hr Hb). Qed.

  (* (x) SCHEDULE PROGRESS: a schedule is any sequence of complete handshakes (each started where its
         two nodes quarantine nobody, are in one cluster and the responder has room) and noise steps
         (anything but a join; evaluations only by nodes that quarantine nobody).  If a is behind b at
         the start and the schedule contains the handshake a -> b, the potential has risen at the end *)
  Theorem C01_schedule_progress : forall strict V g l g', run zc strict g l g' ->
    reachable zc strict g -> bounded V g' ->
    forall a b X, behind g a b X -> (exists e, In (IX e) l /\ x_a e = a /\ x_b e = b) ->
    gpot V g + 1 <= gpot V g'.
  Proof. intros strict. exact (run_progress zc zc_len strict). Qed.

  Theorem C01_fair_schedule_progress : forall strict V g l g', run zc strict g l g' -> fair_schedule g l -> unconverged g ->
    reachable zc strict g -> bounded V g' -> gpot V g + 1 <= gpot V g'.
  Proof. intros strict. exact (fair_schedule_progress zc zc_len strict). Qed.

  (* (xi) at most (copies held at the end) * (V+1)^2 consecutive fair schedules can each start
          unconverged — whatever noise they contain *)
  Theorem C01_unconverged_fair_schedules_bounded : forall strict V g k g', lagging_schedules zc strict g k g' ->
    reachable zc strict g -> bounded V g' ->
    N.of_nat k <= nsum (map (fun n => N.of_nat (length (cs_nodes (nd_cs n))) * (V + 1) * (V + 1)) (w_nodes (g_w g'))).
  Proof. intros strict. exact (unconverged_fair_schedules_bounded zc zc_len strict). Qed.

  (* a liveness evaluation by a node that quarantines nobody (and whose grace period is positive)
     removes no member *)
  Theorem C01_quiet_evaluation_removes_nobody : forall now n oracle,
    grace_sane (cf_fd (nd_cfg n)) -> scheduled now n = [] -> nd_cs (update_nodes_liveness now n oracle) = nd_cs n.
  Proof. exact eval_harmless. Qed.

  Theorem C01_strict_advance_raises_measure : forall V c c',
    frontier_lt c c' -> c_max c <= V -> c_max c' <= V -> frontier_measure V c < frontier_measure V c'.
  Proof. exact frontier_measure_lt. Qed.
End C01.

(* ---- non-vacuity: a responder two versions ahead of a fresh initiator; every hypothesis of
        C01_exchange_progress is met and the initiator's copy moves from (0,0) to (0,2) ---- *)
Definition ex_zc : bytes -> option bytes := fun _ => None.
Definition ex_fdc := mkFdCfg 8 1 1000 10000 5000 100000 50000.
Definition ex_cfg (nm : byte) := mkCfg (mkId [nm] 0 (V4 1 1)) [x63] ex_fdc 10 PNone false.
Definition ex_a := new_node (ex_cfg x41) [].
Definition ex_b := fst (on_own (fst (on_own (new_node (ex_cfg x42) []) (fun c => set c [x6b] [x31]))) (fun c => set c [x6c] [x32])).
Definition ex_syn := create_syn_message 0 ex_a.

Example C01_example :
  match ex_syn with
  | Syn cl dg =>
      match process_message ex_zc 0 ex_b (Syn cl dg) [] with
      | Ok (b', Some (SynAck dgb x), _) =>
          match process_message ex_zc 0 ex_a (SynAck dgb x) [] with
          | Ok (a', _, _) =>
              option_map (fun c => (c_gc c, c_max c)) (nm_get (cf_id (ex_cfg x42)) (cs_nodes (nd_cs a'))) = Some (0, 2)
              /\ length (nds x) = 1%nat
          | _ => False
          end
      | _ => False
      end
  | _ => False
  end.
Proof. vm_compute. split; reflexivity. Qed.

(* ---- non-vacuity of (viii): two nodes, b two versions ahead; one fair round (a->b, b->a); every
        premise holds in the start state, and the world potential (V = 2) moves from 4 to 8 ---- *)
Definition fr_ops : list gop := [OJoin (ex_cfg x41) []; OJoin (ex_cfg x42) []; OSet 1 [x6b] [x31]; OSet 1 [x6c] [x32]].
Definition fr_round : list exch := [mkX 0 1 [] [] []; mkX 1 0 [] [] []].
Example C01_fair_round_example :
  exists g0 g1, reachable ex_zc true g0 /\ round_run ex_zc true g0 fr_round g1 /\ fair g0 fr_round /\ unconverged g0 /\
                quiet_world g0 /\ one_cluster g0 /\ gpot 2 g0 = 4 /\ gpot 2 g1 = 8.
Proof. apply (fair_round_instance_sound ex_zc true fr_ops fr_round 0 1 (cf_id (ex_cfg x42))). vm_compute. reflexivity. Qed.

(* ---- non-vacuity of (x): the same two nodes (b also deleted a key); the schedule interleaves the two
        handshakes with a clock advance, an evaluation, a heartbeat, an unanswered SYN, GC passes,
        the late delivery of that SYN and a local write; potential (V = 4) from 5 to 27 ---- *)
Definition fs_ops : list gop := [OJoin (ex_cfg x41) []; OJoin (ex_cfg x42) []; OSet 1 [x6b] [x31]; OSet 1 [x6c] [x32]; ODel 1 [x6b]].
Definition fs_sched : list item :=
  [IN (OTick 1000); IN (OEval 0 None); IN (OHeartbeat 1); IN (OSyn 1); IX (mkX 0 1 [] [] []); IN (OGc 1); IN (ODeliver 0 3%nat []);
   IN (OSet 0 [x7a] [x39]); IN (OTick 20); IN (OGc 1); IX (mkX 1 0 [] [] [])].
Example C01_fair_schedule_example :
  exists g0 g1, reachable ex_zc true g0 /\ run ex_zc true g0 fs_sched g1 /\ fair_schedule g0 fs_sched /\ unconverged g0 /\
                gpot 4 g0 = 5 /\ gpot 4 g1 = 27.
Proof. apply (fair_schedule_instance_sound ex_zc true fs_ops fs_sched 0 1 (cf_id (ex_cfg x42))). vm_compute. reflexivity. Qed.

(* ---- the known class KF-2 (wasted offer), exhibited: without the quiet premise the progress
        statement is false.  Nodes a (0), b (1), X (2), failure detector with a 100 s dead-node grace
        period.  X writes 40 keys of 2,000 incompressible bytes (more than one datagram), everybody
        syncs, X falls silent; a evaluates liveness every second and, 80 s later, has X scheduled for
        deletion (dead for more than half the grace period) while b, which never evaluated, still
        lists X as live.  b writes a new key.  Five complete loss-free handshakes a<->b later a's
        copy of b is still at version 1 while b is at 2: a omits X from its digest, b therefore
        serves X first (an unknown member has top priority) and fills the datagram with it, a
        discards it. ---- *)
Definition kf2_fdc := mkFdCfg 8 1 1000 10000000000 5000000000 100000000000 50000000000.
Definition kf2_cfg (nm : byte) := mkCfg (mkId [nm] 0 (V4 1 1)) [x63] kf2_fdc 1000000000 PNone false.
Definition kf2_idB := mkId [x42] 0 (V4 1 1).
Definition kf2_idX := mkId [x58] 0 (V4 1 1).
Definition kf2_hs (a b : nat) := [OSyn a; ODeliver b 0%nat []; ODeliver a 0%nat []; ODeliver b 0%nat []].
Definition kf2_sec : Z := 1000000000%Z.
Definition kf2_keys : list byte :=
  [x30;x31;x32;x33;x34;x35;x36;x37;x38;x39;x61;x62;x63;x64;x65;x66;x67;x68;x69;x6a;x6b;x6c;x6d;x6e;x6f;x70;x71;x72;x73;x74;x75;x76;x77;x78;x79;x7a;x41;x42;x43;x44].
Definition kf2_round : list gop :=
  kf2_hs 2 0 ++ kf2_hs 2 1 ++ kf2_hs 0 1 ++ [OTick kf2_sec; OEval 0 None; OEval 1 None].
Fixpoint kf2_rep {A} (n : nat) (l : list A) : list A := match n with O => [] | S k => l ++ kf2_rep k l end.
Definition kf2_prefix : list gop :=
  [OJoin (kf2_cfg x41) []; OJoin (kf2_cfg x42) []; OJoin (kf2_cfg x58) []; OSet 1 [x69] [x30]]
  ++ map (fun k => OSet 2 [k] (repeat k 2000)) kf2_keys
  ++ kf2_rep 6 kf2_round
  ++ kf2_rep 80 (kf2_hs 0 1 ++ [OTick kf2_sec; OEval 0 None])
  ++ [OSet 1 [x6e] [x31]].
Definition kf2_obs (g : gstate) :=
  (option_map c_max (copy_at g 0 kf2_idB), option_map c_max (copy_at g 1 kf2_idB),
   option_map (fun n => scheduled (w_now (g_w g)) n) (node_at g 0),
   option_map (fun n => scheduled (w_now (g_w g)) n) (node_at g 1)).

Example C01_wasted_offer_witness :
  option_map kf2_obs (grun ex_zc false kf2_prefix) = Some (Some 1, Some 2, Some [kf2_idX], Some [])
  /\ option_map kf2_obs (grun ex_zc false (kf2_prefix ++ kf2_rep 5 (kf2_hs 0 1))) = Some (Some 1, Some 2, Some [kf2_idX], Some []).
Proof. split; vm_compute; reflexivity. Qed.

(* both states are reachable (non-strict relation; no weak acceptance is involved) *)
Theorem C01_wasted_offer_states_reachable : forall g,
  grun ex_zc false kf2_prefix = Some g \/ grun ex_zc false (kf2_prefix ++ kf2_rep 5 (kf2_hs 0 1)) = Some g ->
  reachable ex_zc false g.
Proof. intros g [H|H]; eapply grun_reachable; exact H. Qed.

Print Assumptions C01_deliverable_iff_ahead.
Print Assumptions C01_wasted_offer_states_reachable.
Print Assumptions C01_first_stale_member_is_offered.
Print Assumptions C01_exchange_progress.
Print Assumptions C01_quiet_exchange_progress.
Print Assumptions C01_ack_offers_first_stale.
Print Assumptions C01_ack_applied_advances.
Print Assumptions C01_offer_is_applicable.
Print Assumptions C01_frontier_bounded_by_owner.
Print Assumptions C01_strict_advance_raises_measure.
Print Assumptions C01_potential_never_decreases.
Print Assumptions C01_potential_rises_on_exchange.
Print Assumptions C01_productive_steps_bounded.
Print Assumptions C01_behind_implies_deliverable.
Print Assumptions C01_world_potential_never_decreases.
Print Assumptions C01_lagging_exchange_raises_potential.
Print Assumptions C01_bounded_number_of_productive_steps.
Print Assumptions C01_world_potential_bound.
Print Assumptions C01_fair_round_progress.
Print Assumptions C01_round_progress.
Print Assumptions C01_unconverged_fair_rounds_raise_potential.
Print Assumptions C01_unconverged_fair_rounds_bounded.
Print Assumptions C01_unchanged_potential_means_unchanged_frontiers.
Print Assumptions C01_fair_round_example.
Print Assumptions C01_schedule_progress.
Print Assumptions C01_fair_schedule_progress.
Print Assumptions C01_unconverged_fair_schedules_bounded.
Print Assumptions C01_quiet_evaluation_removes_nobody.
Print Assumptions C01_fair_schedule_example.
