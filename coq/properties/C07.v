(* C07 — Replies fit one UDP datagram and truncation only cuts the tail.
   [zc] is the block compressor, an arbitrary function that does not overrun a buffer of the
   block's size (the ONLY assumption on zstd; no compression ratio is assumed). *)
From Coq Require Import Lia.
From ChitchatModel Require Import Base SMap Ids Bytes Params NodeState Stream DeltaWire Message Cluster
  FD Chitchat SMap_lemmas NodeState_lemmas Builder_lemmas Stream_lemmas Agreement Inv DeltaRefine
  Compute_lemmas NodeInv Wire_lemmas Prefix_lemmas Monitors Monitors_sound.

(* the bound announced before an item is appended is an upper bound on the finished stream *)
Theorem C07_stream_upper_bound_sound :
  forall (zc : bytes -> option bytes), (forall b c, zc b = Some c -> len c <= len b) ->
  forall w item w' ub,
    0 < w_thr w -> len (w_pend w) <= w_thr w ->
    upperbound_after w (len item) = Some ub ->
    append zc w item = Ok w' ->
    len (finish zc w') <= ub /\ len (w_pend w') <= w_thr w' /\ w_thr w' = w_thr w.
Proof. exact upperbound_sound. Qed.
Print Assumptions C07_stream_upper_bound_sound.

(* For every well-formed cluster state, every peer digest, every budget in [100, 65535], every
   scheduled set and every shuffle outcome: the computation never aborts (it may only refuse an
   illegal shuffle outcome, which the real shuffle cannot produce), the delta's announced length
   is within the budget, and its node deltas are, in some order of the stale candidates, version
   prefixes. *)
Theorem C07_delta_within_budget :
  forall (zc : bytes -> option bytes), (forall b c, zc b = Some c -> len c <= len b) ->
  forall cs dg mtu sched ord,
    cluster_inv cs -> P_MIN_MTU <= mtu -> mtu <= u16_max ->
    compute_delta zc cs dg mtu sched ord = Err \/
    exists x, compute_delta zc cs dg mtu sched ord = Ok x /\ delta_shape cs dg sched mtu x.
Proof. exact compute_delta_spec. Qed.
Print Assumptions C07_delta_within_budget.

(* For each member included: it is a known member not scheduled for deletion; the node delta
   carries exactly the sender's entries whose versions lie in (from, max], i.e. running out of
   space only drops the highest versions. ([stale_sorted c from] = the entries of [c] with version
   above [from], in ascending version order.) *)
Theorem C07_truncation_cuts_only_the_tail : forall cs dg sched mtu x,
  cluster_inv cs -> delta_shape cs dg sched mtu x ->
  forall nd, In nd (nds x) ->
    exists n j mv,
      In n (stale_nodes cs dg sched) /\ nd = node_piece n j mv /\
      in_ids (sn_id n) sched = false /\
      nm_get (sn_id n) (cs_nodes cs) = Some (sn_copy n) /\
      d_kvs nd = map kvm_of (filter (fun e => v_ver (snd e) <=? d_max nd)
                                    (stale_sorted (sn_copy n) (d_from nd))).
Proof. exact computed_delta_nodes. Qed.
Print Assumptions C07_truncation_cuts_only_the_tail.

(* the header reserve subtracted by process_message covers the real 4-byte header *)
Theorem C07_header_reserve_sufficient : 4 <= P_RESERVE_SYNACK /\ 4 <= P_RESERVE_ACK /\ P_MAX_UDP = 65507.
Proof. vm_compute. repeat split; discriminate. Qed.
Print Assumptions C07_header_reserve_sufficient.

(* Every SYN-ACK and ACK a well-formed node produces serializes to at most 65,507 bytes, as long
   as (for a SYN-ACK) its own digest leaves at least 100 bytes of room. *)
Theorem C07_replies_fit_datagram :
  forall (zc : bytes -> option bytes), (forall b c, zc b = Some c -> len c <= len b) ->
  forall now n m ord n' reply evs,
    node_inv n -> msg_wf m ->
    (forall c dg, m = Syn c dg -> c = cf_cluster (nd_cfg n) ->
                  synack_used now n dg + P_MIN_MTU <= P_MAX_UDP) ->
    process_message zc now n m ord = Ok (n', Some reply, evs) ->
    serialized_len reply <= P_MAX_UDP /\
    forall b, encode zc reply = Ok b -> len b <= P_MAX_UDP.
Proof.
  intros zc zc_len now n m ord n' reply evs Hinv Hwf Hroom Hrun.
  assert (Hlen : serialized_len reply <= P_MAX_UDP).
  { destruct (process_message_total zc zc_len now n m ord Hinv Hwf Hroom) as [He|(n2 & r2 & e2 & Hr & _ & Hb)].
    - rewrite Hrun in He. discriminate.
    - rewrite Hrun in Hr. injection Hr as <- <- <-.
      destruct C07_header_reserve_sufficient as (H1 & H2 & _).
      destruct reply as [c d|d x|x|]; unfold serialized_len.
      + (* a node never replies with a SYN *)
        destruct m as [c0 d0|d0 x0|x0|]; cbn [process_message] in Hrun.
        * destruct (negb _); [discriminate|]. destruct (P_MAX_UDP <? _); [discriminate|].
          destruct (compute_delta _ _ _ _ _ _); discriminate.
        * destruct (process_delta _ _ _) as [[n3 e3]| |]; cbn [rbind] in Hrun; try discriminate.
          destruct (compute_delta _ _ _ _ _ _); discriminate.
        * destruct (process_delta _ _ _) as [[n3 e3]| |]; discriminate.
        * discriminate.
      + lia.
      + lia.
      + vm_compute. discriminate. }
  split; [exact Hlen|]. intros b Hb. rewrite (encode_len zc reply b Hb). exact Hlen.
Qed.
Print Assumptions C07_replies_fit_datagram.

(* the version-prefix monitor evaluated on the implementation's replies and computed deltas
   (c07_delta_ok: ascending from the start version, exactly the sender's stale entries up to the
   announced max version, announced max version within the sender's, watermark = the sender's) is
   satisfied by every delta the model computes *)
Theorem C07_computed_deltas_pass_the_monitor : forall cs dg sched mtu x,
  cluster_inv cs -> delta_shape cs dg sched mtu x -> c07_delta_ok (cs_nodes cs) [] x = true.
Proof. exact computed_delta_passes_c07. Qed.
Print Assumptions C07_computed_deltas_pass_the_monitor.
