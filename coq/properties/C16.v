(* C16 — Clusters with different ids stay isolated: the one-step statements, and the invariant
   over all schedules of a routed network (Isolation.v). *)
From ChitchatModel Require Import Base SMap Ids Bytes Params NodeState Stream DeltaWire Message
  Cluster FD Chitchat World SMap_lemmas Cluster_lemmas Chitchat_lemmas Reach Isolation FdKnown Routed.

(* A SYN with a different cluster id (any different byte string: empty, prefix, case variant) is
   answered only with BadCluster, produces no event, and the node is what it was except for its
   own heartbeat increment (done for every processed message). *)
Theorem C16_foreign_syn_rejected : forall zc now n cluster dg ord,
  cluster <> cf_cluster (nd_cfg n) ->
  process_message zc now n (Syn cluster dg) ord = Ok (update_self_heartbeat n, Some BadCluster, []).
Proof. exact foreign_syn_rejected. Qed.
Print Assumptions C16_foreign_syn_rejected.

(* ... and that increment touches nothing else: other members' copies, removed-member memory,
   failure detector, watch channel, callback counter *)
Theorem C16_rejection_leaves_state : forall n,
  let n' := update_self_heartbeat n in
  (forall i, i <> self_id n -> nm_get i (cs_nodes (nd_cs n')) = nm_get i (cs_nodes (nd_cs n))) /\
  (forall c, nm_get (self_id n) (cs_nodes (nd_cs n)) = Some c ->
     nm_get (self_id n) (cs_nodes (nd_cs n')) = Some (inc_heartbeat c) /\ cs_gcn (nd_cs n') = cs_gcn (nd_cs n)) /\
  nd_cfg n' = nd_cfg n /\ nd_fd n' = nd_fd n /\ nd_prev n' = nd_prev n /\ nd_watch n' = nd_watch n
  /\ nd_sends n' = nd_sends n /\ nd_cb n' = nd_cb n.
Proof.
  intros n n'. split; [|split].
  - intros i Hi. apply update_self_heartbeat_others. exact Hi.
  - intros c Hc. apply update_self_heartbeat_own. exact Hc.
  - apply update_self_heartbeat_fields.
Qed.
Print Assumptions C16_rejection_leaves_state.

(* the rejection is terminal for the initiator: BadCluster triggers no reply and no state change *)
Theorem C16_badcluster_is_terminal : forall zc now n ord,
  process_message zc now n BadCluster ord = Ok (update_self_heartbeat n, None, []).
Proof. exact badcluster_is_terminal. Qed.
Print Assumptions C16_badcluster_is_terminal.

(* Over every schedule of the routed network [rstep] — any number of nodes and clusters, any
   cluster-id strings, joins at any time, local writes, GC, heartbeats, clock, liveness
   evaluation, a SYN addressed by any node to ANY node (cross-configured seeds, shared addresses),
   delivery of any packet ever sent to its addressee any number of times in any order or never
   (loss, duplication, reordering, delay), every reply going back to the sender of the packet it
   answers: a node never holds a copy — key-values, versions, heartbeat — of a member whose
   cluster id differs from its own.  (Honest routing is essential: SYN-ACK and ACK carry no cluster
   id, so a SYN-ACK mis-delivered to a node of another cluster would be accepted; that is outside
   the property's "honest clusters".)  The failure detector's live/dead sets are fed only from
   copies a node holds (report_heartbeat): C16_detector_names_only_own_cluster below. *)
Theorem C16_two_clusters_isolated : forall zc r, rreachable zc r ->
  forall a b na nb, rnode r a = Some na -> rnode r b = Some nb ->
    cluster_of na <> cluster_of nb -> nm_get (self_id nb) (cs_nodes (nd_cs na)) = None.
Proof. exact two_clusters_isolated. Qed.
Print Assumptions C16_two_clusters_isolated.

(* every member a node knows is the id of a node of its own cluster, and nothing in flight can
   change that *)
Theorem C16_isolation_invariant : forall zc r, rreachable zc r -> Iso r.
Proof. exact rreachable_iso. Qed.
Print Assumptions C16_isolation_invariant.

(* The routed network is simulated by the global relation of Reach.v (any message ever sent may
   reach any node, strict = false): every routed world is the world of a [reachable] state whose
   sent-list contains every packet in flight.  So every invariant proved over [reachable] (C03, C05,
   C12, C13 ...) holds in the routed network as well. *)
Theorem C16_routed_network_is_simulated : forall zc r, rreachable zc r ->
  exists g, reachable zc false g /\ g_w g = r_w r /\ forall pk, In pk (r_net r) -> In (p_msg pk) (g_sent g).
Proof. exact rreachable_simulated. Qed.
Print Assumptions C16_routed_network_is_simulated.

(* "no membership leaks": over every schedule of the routed network, the failure detector of a node
   says nothing about a member of a cluster with a different id — that member is not in
   live_nodes(), not in dead_nodes(), and owns no sampling window.  (FdKnown.v: in every reachable
   state the detector only mentions members the node holds a copy of; a copy of a foreign member
   is never held, by the theorem above.) *)
Theorem C16_detector_names_only_own_cluster : forall zc,
  (forall b c, zc b = Some c -> len c <= len b) -> forall r, rreachable zc r ->
  forall a b na nb, rnode r a = Some na -> rnode r b = Some nb -> cluster_of na <> cluster_of nb ->
    ~ In (self_id nb) (live_nodes na) /\ ~ In (self_id nb) (dead_nodes na) /\
    wm_get (self_id nb) (fd_samples (nd_fd na)) = None.
Proof. exact detector_names_only_own_cluster. Qed.
Print Assumptions C16_detector_names_only_own_cluster.

(* non-vacuity: two nodes of clusters "c" and "C"; the first gossips to the second (cross-seed);
   the reachable state contains the rejection and both hold only themselves *)
Definition ex_zc : bytes -> option bytes := fun _ => None.
Definition ex_fdc := mkFdCfg 8 1 1000 10000 5000 100000 50000.
Definition ex_cfg (nm : byte) (cl : byte) := mkCfg (mkId [nm] 0 (V4 1 1)) [cl] ex_fdc 10 PNone false.
Example C16_nonvacuous :
  exists r na nb, rreachable ex_zc r /\ rnode r 0 = Some na /\ rnode r 1 = Some nb /\
    cluster_of na <> cluster_of nb /\ In (mkP 1 0 BadCluster) (r_net r).
Proof.
  pose (r1 := mkR (with_nodes (r_w (r_init)) (w_nodes (r_w r_init) ++ [new_node (ex_cfg x41 x63) []])) (r_net r_init)).
  assert (H1 : rreachable ex_zc r1).
  { eapply RR_step; [apply RR_init|]. apply RS_join. intros a n H. destruct a; discriminate. }
  pose (r2 := mkR (with_nodes (r_w r1) (w_nodes (r_w r1) ++ [new_node (ex_cfg x42 x43) []])) (r_net r1)).
  assert (H2 : rreachable ex_zc r2).
  { eapply RR_step; [exact H1|]. apply RS_join. intros a n H. destruct a as [|[|a]]; try discriminate.
    injection H as <-. vm_compute. discriminate. }
  pose (na := new_node (ex_cfg x41 x63) []). pose (nb := new_node (ex_cfg x42 x43) []).
  pose (r3 := mkR (r_w r2) (mkP 0 1 (create_syn_message (w_now (r_w r2)) na) :: r_net r2)).
  assert (H3 : rreachable ex_zc r3).
  { eapply RR_step; [exact H2|]. apply (RS_syn ex_zc r2 0 1 na). reflexivity. }
  eexists _, _, _. split.
  - eapply RR_step; [exact H3|].
    eapply (RS_deliver ex_zc r3 (mkP 0 1 (create_syn_message (w_now (r_w r2)) na)) nb []); [left; reflexivity|reflexivity|].
    vm_compute. reflexivity.
  - split; [reflexivity|]. split; [reflexivity|]. split; [vm_compute; discriminate|]. left. reflexivity.
Qed.
