(* C16 — Clusters with different ids stay isolated (one-step part; the two-cluster invariant
   over schedules is in Isolation.v / C16_two_clusters_isolated). *)
From ChitchatModel Require Import Base SMap Ids Bytes Params NodeState Stream DeltaWire Message
  Cluster FD Chitchat SMap_lemmas Cluster_lemmas Chitchat_lemmas.

(* A SYN with a different cluster id (any different byte string: empty, prefix, case variant) is
   answered only with BadCluster, produces no event, and the node is what it was except for its
   own heartbeat increment (done for every processed message). *)
Theorem C16_foreign_syn_rejected : forall zc now n cluster dg ord,
  cluster <> cf_cluster (nd_cfg n) ->
  process_message zc now n (Syn cluster dg) ord = Ok (update_self_heartbeat n, Some BadCluster, []).
Proof. exact foreign_syn_rejected. Qed.
Print Assumptions C16_foreign_syn_rejected.

(* ... and that increment touches nothing else: other members' copies, removed-member memory,
   failure detector, watch channel, callback counter *)
Theorem C16_rejection_leaves_state : forall n,
  let n' := update_self_heartbeat n in
  (forall i, i <> self_id n -> nm_get i (cs_nodes (nd_cs n')) = nm_get i (cs_nodes (nd_cs n))) /\
  (forall c, nm_get (self_id n) (cs_nodes (nd_cs n)) = Some c ->
     nm_get (self_id n) (cs_nodes (nd_cs n')) = Some (inc_heartbeat c) /\ cs_gcn (nd_cs n') = cs_gcn (nd_cs n)) /\
  nd_cfg n' = nd_cfg n /\ nd_fd n' = nd_fd n /\ nd_prev n' = nd_prev n /\ nd_watch n' = nd_watch n
  /\ nd_sends n' = nd_sends n /\ nd_cb n' = nd_cb n.
Proof.
  intros n n'. split; [|split].
  - intros i Hi. apply update_self_heartbeat_others. exact Hi.
  - intros c Hc. apply update_self_heartbeat_own. exact Hc.
  - apply update_self_heartbeat_fields.
Qed.
Print Assumptions C16_rejection_leaves_state.

(* the rejection is terminal for the initiator: BadCluster triggers no reply and no state change *)
Theorem C16_badcluster_is_terminal : forall zc now n ord,
  process_message zc now n BadCluster ord = Ok (update_self_heartbeat n, None, []).
Proof. exact badcluster_is_terminal. Qed.
Print Assumptions C16_badcluster_is_terminal.
