(* C17 — Peer selection is bounded and always reaches a seed when isolated.
   The random generator's answers are explicit arguments ([oracle]): the sample, the two uniform
   draws in [0,1) as numerators over 2^53, the element chosen among dead peers and among seeds.
   [oracle_valid] is the contract of rand's sample / choose / random::<f64>. *)
From Coq Require Import Lia.
From ChitchatModel Require Import Base Ids Params Select.

Lemma mem_addr_in a l : mem_addr a l = true -> exists b, In b l /\ addr_eqb a b = true.
Proof. unfold mem_addr. intros H. apply existsb_exists in H. exact H. Qed.

(* at most three distinct peers drawn from the live peers (from all known peers when none is
   live); at most one dead peer, drawn from the dead set; at most one seed, drawn from the seeds *)
Theorem C17_selection_bounds : forall peers live dead seeds o,
  oracle_valid peers live dead seeds o = true ->
  let s := select_nodes_for_gossip peers live dead seeds o in
  (length (sel_nodes s) <= 3)%nat /\ distinct_addrs (sel_nodes s) = true /\
  (forall a, In a (sel_nodes s) -> mem_addr a (pool_of peers live) = true) /\
  (forall a, sel_dead s = Some a -> mem_addr a dead = true) /\
  (forall a, sel_seed s = Some a -> mem_addr a seeds = true).
Proof.
  intros peers live dead seeds o Hv. cbn zeta. unfold oracle_valid in Hv.
  apply andb_true_iff in Hv as [Hv Hdraws]. apply andb_true_iff in Hv as [Hv Hseed].
  apply andb_true_iff in Hv as [Hsample Hdead].
  unfold valid_sample in Hsample. apply andb_true_iff in Hsample as [Hs Hsub].
  apply andb_true_iff in Hs as [Hlen Hdist]. apply Nat.eqb_eq in Hlen.
  unfold select_nodes_for_gossip. cbn [sel_nodes sel_dead sel_seed].
  split; [|split; [exact Hdist|split; [|split]]].
  - rewrite Hlen. assert (N.to_nat P_GOSSIP_COUNT = 3%nat) by (vm_compute; reflexivity). lia.
  - intros a Ha. rewrite forallb_forall in Hsub. apply Hsub. exact Ha.
  - intros a. destruct (decide_dead _ _ _); [|discriminate]. intros E. rewrite E in Hdead. exact Hdead.
  - intros a. destruct (_ && _); [|discriminate]. intros E. rewrite E in Hseed. exact Hseed.
Qed.
Print Assumptions C17_selection_bounds.

(* no live peer and a seed exists: a seed is always contacted, whatever the draws (the 0/0
   probability is never consulted) *)
Theorem C17_forced_seed : forall peers dead seeds o,
  seeds <> [] -> valid_choice seeds (or_seed o) = true ->
  let s := select_nodes_for_gossip peers [] dead seeds o in
  sel_seed_decided s = true /\ exists a, sel_seed s = Some a /\ mem_addr a seeds = true.
Proof.
  intros peers dead seeds o Hne Hv. unfold select_nodes_for_gossip. cbn [length N.of_nat sel_seed_decided sel_seed].
  assert (Hts : try_seed (or_sample o) seeds 0 = true).
  { unfold try_seed. destruct seeds; [congruence|]. cbn [length]. rewrite orb_true_iff. right. apply N.ltb_lt. lia. }
  rewrite Hts. unfold decide_seed. cbn [N.eqb andb].
  destruct seeds as [|s0 r]; [congruence|]. split; [reflexivity|].
  unfold valid_choice in Hv. destruct (or_seed o) as [a|]; [|discriminate]. exists a. auto.
Qed.
Print Assumptions C17_forced_seed.

(* dead peers outnumber live ones: a dead peer is always contacted, whatever the draw in [0,1) *)
Theorem C17_forced_dead : forall peers live dead seeds o,
  (length live < length dead)%nat ->
  nth 0 (or_draws o) 0 < two53 ->
  valid_choice dead (or_dead o) = true ->
  let s := select_nodes_for_gossip peers live dead seeds o in
  sel_dead_decided s = true /\ exists a, sel_dead s = Some a /\ mem_addr a dead = true.
Proof.
  intros peers live dead seeds o Hlt Hdraw Hv. unfold select_nodes_for_gossip. cbn [sel_dead_decided sel_dead].
  assert (Hd : decide_dead (N.of_nat (length live)) (N.of_nat (length dead)) (nth 0 (or_draws o) 0) = true).
  { unfold decide_dead. apply N.ltb_lt.
    assert (two53 = 9007199254740992) by reflexivity. nia. }
  rewrite Hd. destruct dead as [|d0 r]; [cbn in Hlt; lia|]. split; [reflexivity|].
  unfold valid_choice in Hv. destruct (or_dead o) as [a|]; [|discriminate]. exists a. auto.
Qed.
Print Assumptions C17_forced_dead.

Example C17_nonvacuous :
  let a := V4 1 1 in let b := V4 2 2 in
  oracle_valid [a; b] [] [b] [a] (mkOracle [a; b] [5; 7] (Some b) (Some a)) = true.
Proof. vm_compute. reflexivity. Qed.
