(* C08 — Wire format round-trips exactly and announces its exact length.

   Model: Bytes.v (primitives, ids), Message.v (digest, framing), Stream.v (block stream; zstd is
   the pair of section variables zc/zd), DeltaWire.v (op stream, DeltaBuilder).  Theorems hold for
   every compressor zc that never expands a block and every decompressor zd that is a left
   inverse of it; the correspondence suite `wire` ties encode/decode to the real
   Serializable/Deserializable impls, in both directions, against an independent byte-level
   encoder/decoder in the harness (compressed, uncompressed, multi-block, crafted streams). *)
From Coq Require Import Lia.
From ChitchatModel Require Import Base SMap Ids Bytes Params NodeState Stream DeltaWire Message Cluster
  FD Chitchat World SMap_lemmas Builder_lemmas Wire_lemmas Codec_lemmas Emit_lemmas Inv Compute_lemmas
  NodeInv Truth NodeTruth Weak Reach ReachEmit Written.

Section C08.
  Variable zc : bytes -> option bytes.
  Variable zd : bytes -> option bytes.
  Hypothesis zc_len : forall b c, zc b = Some c -> len c <= len b.
  Hypothesis zd_zc : forall b c, zc b = Some c -> zd c = Some b.

  (* the length announced before serialization is the number of bytes written: every message *)
  Theorem C08_announced_length : forall m b, encode zc m = Ok b -> len b = serialized_len m.
  Proof. exact (encode_len zc). Qed.

  (* decode (encode m) = m, consuming exactly the bytes of m, for every message whose fields are
     in range (msg_bounds), whose digest is sorted by ChitchatId and whose delta is in the normal
     form of Delta::get_operations (msg_struct) *)
  Theorem C08_decode_encode : forall m b rest,
    msg_struct m -> msg_bounds m -> encode zc m = Ok b ->
    decode zd (b ++ rest) = Some (m, rest) /\ decode zd b = Some (m, []) /\ len b = serialized_len m.
  Proof.
    intros m b rest Hs Hb He. pose proof (struct_bounds_ok m Hs Hb) as Hok.
    split; [exact (decode_encode_rest zc zd zc_len zd_zc m b rest Hok He)|].
    split; [exact (decode_encode zc zd zc_len zd_zc m b Hok He)|exact (encode_len zc m b He)].
  Qed.

  (* every message a node emits — every SYN it creates and every reply it computes, in every
     reachable state of any cluster — has that structure; so it round-trips whenever its fields
     are in range *)
  Theorem C08_emitted_messages_round_trip : forall strict g, reachable zc strict g ->
    forall m b, In m (g_sent g) -> msg_bounds m -> encode zc m = Ok b ->
      decode zd b = Some (m, []) /\ len b = serialized_len m.
  Proof.
    intros strict g Hr m b Hm Hb He.
    destruct (C08_decode_encode m b [] (sent_struct zc zc_len strict g Hr m Hm) Hb He) as (_ & H2 & H3). auto.
  Qed.

  (* Delta::serialize of a delta computed by the MTU-bounded serializer writes exactly the bytes
     that serializer measured — for every budget, although the two use different block
     thresholds: no assert fires, and the recorded length is the payload length *)
  Theorem C08_computed_deltas_serialize : forall cs dg mtu sched ord x,
    cluster_inv cs -> P_MIN_MTU <= mtu -> mtu <= u16_max ->
    compute_delta zc cs dg mtu sched ord = Ok x ->
    exists p, put_delta zc x = Ok p /\ len p = dlen x.
  Proof. exact (computed_delta_serializes zc zc_len). Qed.

  (* every reply a well-formed node computes encodes without abort, to as many bytes as announced *)
  Theorem C08_replies_encode : forall now n m ord n' r evs,
    node_inv n -> msg_wf m -> process_message zc now n m ord = Ok (n', Some r, evs) ->
    exists b, encode zc r = Ok b /\ len b = serialized_len r.
  Proof. exact (reply_encodes zc zc_len). Qed.

  (* the pieces, each usable on its own *)
  Theorem C08_primitives :
    (forall v r, v < 256 -> get_u8 (put_u8 v ++ r) = Some (v, r)) /\
    (forall v r, v <= 65535 -> get_u16 (put_u16 v ++ r) = Some (v, r)) /\
    (forall v r, v < 2 ^ 64 -> get_u64 (put_u64 v ++ r) = Some (v, r)) /\
    (forall s r, str_ok s -> get_str (put_str s ++ r) = Some (s, r)) /\
    (forall a r, addr_ok a -> get_addr (put_addr a ++ r) = Some (a, r)) /\
    (forall i r, id_ok i -> get_id (put_id i ++ r) = Some (i, r)) /\
    (forall d r, digest_ok d -> get_digest (put_digest d ++ r) = Some (d, r)) /\
    (forall o r, op_ok o -> get_op (put_op o ++ r) = Some (o, r)).
  Proof.
    split; [exact get_u8_put|]. split; [exact get_u16_put|]. split; [exact get_u64_put|].
    split; [exact get_str_put|]. split; [exact get_addr_put|]. split; [exact get_id_put|].
    split; [exact get_digest_put|exact get_op_put].
  Qed.

  (* the block stream: whatever was appended (any number of blocks, compressed or not) is read
     back exactly, and the reader stops exactly at the end marker *)
  Theorem C08_stream_round_trip : forall ops w rest,
    append_ops zc (new_writer P_BLOCK_THRESHOLD_SER) ops = Ok w ->
    read_stream zd (finish zc w ++ rest) = Some (flat_map put_op ops, rest).
  Proof.
    intros ops w rest E. destruct ser_threshold_ok as [T1 T2].
    destruct (append_ops_winv zc zd zc_len zd_zc ops _ [] w (new_writer_winv zd _ T1 T2) ltac:(cbn; lia) E) as [Hw Hp].
    exact (read_stream_finish zc zd zc_len zd_zc w _ rest Hw Hp).
  Qed.

  Theorem C08_delta_round_trip : forall x p rest,
    delta_ok x -> put_delta zc x = Ok p -> get_delta zd (p ++ rest) = Some (x, rest) /\ len p = dlen x.
  Proof.
    intros x p rest Hx E. split; [exact (get_delta_put zc zd zc_len zd_zc x p rest Hx E)|exact (put_delta_len zc x p E)].
  Qed.
End C08.

(* ---- non-vacuity: a SYN-ACK with an IPv6 id, a multi-byte name, a 4-byte UTF-8 value, a
        tombstone and an empty member with a SetMaxVersion tail meets all hypotheses, encodes,
        and decodes back (compressor that never compresses) ---- *)
Definition ex_zc : bytes -> option bytes := fun _ => None.
Definition ex_zd : bytes -> option bytes := fun _ => None.
Definition ex_idA := mkId [xc3; xa9] 7 (V6 42540766411282592856903984951653826561 2004).
Definition ex_idB := mkId [x62] 0 (V4 167772161 2000).
Definition ex_dg : digest := [(ex_idB, mkNDg 3 0 2); (ex_idA, mkNDg 9 1 4)].
Definition ex_x : delta :=
  mkDelta [mkND ex_idA 0 1 [mkKvm [x6b] [xf0; x9d; x84; x9e] 2 MSet; mkKvm [x6c] [] 4 MDel] 4; mkND ex_idB 1 0 [] 2] 130.
Definition ex_m := SynAck ex_dg ex_x.

Example C08_example_hypotheses : msg_struct ex_m /\ msg_bounds ex_m.
Proof.
  assert (Hid : id_ok ex_idA /\ id_ok ex_idB).
  { unfold id_ok, str_ok, u64_ok, addr_ok, u16_max. cbn. repeat split; try lia; try reflexivity. }
  destruct Hid as [HA HB].
  split.
  - split; [vm_compute; repeat split|]. split.
    + constructor; [cbn; intros [H|[]]; discriminate H|]. constructor; [intros []|constructor].
    + constructor; [|constructor; [|constructor]].
      * split; [cbn; repeat split; lia|intros _; reflexivity].
      * split; [exact I|intros H; contradiction].
  - split; [split; [cbn; unfold u16_max; lia|]|].
    + constructor; [|constructor; [|constructor]]; cbn [fst snd]; (split; [assumption|]); unfold ndigest_ok, u64_ok; cbn; lia.
    + assert (Hs : forall s, (length s <= 4)%nat -> utf8_valid s = true -> str_ok s).
      { intros s Hl Hu. split; [unfold len, u16_max; lia|exact Hu]. }
      constructor; [|constructor; [|constructor]]; unfold nd_ok; cbn [d_id d_gc d_from d_max d_kvs].
      * split; [exact HA|]. unfold u64_ok. repeat (split; [lia|]).
        constructor; [|constructor; [|constructor]]; unfold kvm_ok, u64_ok; cbn [m_key m_val m_ver];
          (split; [apply Hs; [cbn; lia|reflexivity]|]); (split; [apply Hs; [cbn; lia|reflexivity]|lia]).
      * split; [exact HB|]. unfold u64_ok. repeat (split; [lia|]). constructor.
Qed.

Example C08_example_round_trip :
  match encode ex_zc ex_m with
  | Ok b => decode ex_zd b = Some (ex_m, []) /\ len b = serialized_len ex_m /\ len b = 233
  | _ => False
  end.
Proof. vm_compute. repeat split. Qed.

(* the documented layout, byte by byte, for the smallest message: magic 0x53C6 (little endian),
   protocol version, tag *)
Example C08_example_layout :
  encode ex_zc BadCluster = Ok (put_u16 P_MAGIC ++ put_u8 P_PROTOCOL_VERSION ++ put_u8 P_TAG_BADCLUSTER)
  /\ decode ex_zd (put_u16 P_MAGIC ++ put_u8 P_PROTOCOL_VERSION ++ put_u8 P_TAG_BADCLUSTER) = Some (BadCluster, []).
Proof. vm_compute. split; reflexivity. Qed.

Print Assumptions C08_announced_length.
Print Assumptions C08_decode_encode.
Print Assumptions C08_emitted_messages_round_trip.
Print Assumptions C08_computed_deltas_serialize.
Print Assumptions C08_replies_encode.
Print Assumptions C08_primitives.
Print Assumptions C08_stream_round_trip.
Print Assumptions C08_delta_round_trip.
