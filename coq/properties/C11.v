(* C11 — Liveness needs fresh evidence; steady heartbeats are never flagged.
   (Same exact-arithmetic caveat as C10 for the f64 evaluation.) *)
From Coq Require Import Lia ZArith.
From ChitchatModel Require Import Base SMap Ids Bytes Params NodeState Stream DeltaWire Message Cluster
  FD Chitchat World SMap_lemmas NodeState_lemmas Cluster_lemmas FD_lemmas Inv Compute_lemmas NodeInv HbMono
  Truth NodeTruth Reach HbReach GuardsGen GuardTie.

(* a replayed, duplicated, equal or lower heartbeat for a member whose stored heartbeat is
   non-zero — from any relay, any number of times, in any order — leaves the WHOLE node unchanged:
   copy, detector windows, live/dead sets; so it can neither make a member live nor move the
   deadline of C10 *)
Theorem C11_stale_heartbeat_is_noop : forall now n i hb c,
  node_inv n -> nm_get i (cs_nodes (nd_cs n)) = Some c ->
  (0 < c_hb c)%N -> (hb <= c_hb c)%N ->
  report_heartbeat now n i hb = n.
Proof.
  intros now n i hb c [Hs _] Hget Hpos Hle. unfold report_heartbeat.
  destruct (id_eqb i (self_id n)); [reflexivity|].
  assert (Hcs : (if match last_heartbeat_if_deleted (nd_cs n) i with Some last => (last <? hb)%N | None => true end
                 then node_state_mut_or_init (nd_cs n) i else nd_cs n) = nd_cs n).
  { destruct (match last_heartbeat_if_deleted (nd_cs n) i with Some _ => _ | None => _ end); [|reflexivity].
    unfold node_state_mut_or_init. rewrite Hget. reflexivity. }
  rewrite Hcs, Hget. unfold try_set_heartbeat.
  assert (E0 : (c_hb c =? 0)%N = false) by (apply N.eqb_neq; lia). rewrite E0.
  assert (E1 : (c_hb c <? hb)%N = false) by (apply N.ltb_ge; exact Hle). rewrite E1.
  unfold nm_insert. rewrite (sm_insert_same id_cmp id_cmp_eq id_cmp_trans i c _ Hs Hget).
  destruct n as [cfg [nodes gcn] f prev watch sends cb]. reflexivity.
Qed.
Print Assumptions C11_stale_heartbeat_is_noop.

(* the first value ever stored for a member is not evidence: it is not reported to the detector;
   an observation counts only if strictly above a non-zero stored value *)
Theorem C11_first_value_is_not_evidence : forall c hb,
  c_hb c = 0%N -> snd (try_set_heartbeat c hb) = false.
Proof. intros c hb H. unfold try_set_heartbeat. rewrite H. reflexivity. Qed.
Print Assumptions C11_first_value_is_not_evidence.

(* and a member is alive only with at least one recorded interval, i.e. at least two reports
   (two strictly increasing values above the first stored one) *)
Theorem C11_alive_needs_an_interval : forall cfg now w,
  win_alive cfg now w = true -> wd_vals w <> [] /\ wd_last w <> None.
Proof.
  intros cfg now w H. split; intros E.
  - rewrite (no_interval_not_alive cfg now w E) in H. discriminate.
  - rewrite (never_reported_not_alive cfg now w E) in H. discriminate.
Qed.
Print Assumptions C11_alive_needs_an_interval.

(* steady heartbeats: intervals within [a,b], b <= max_interval (they were all accepted),
   evaluated at most b after the last report, threshold >= b / min(a, initial_interval) => live *)
Theorem C11_steady_heartbeats_stay_alive : forall cfg now w last a b,
  cfg_ok cfg -> wd_last w = Some last -> wd_vals w <> [] ->
  Forall (fun v => a <= v <= b)%Z (wd_vals w) ->
  (0 < Z.min a (initial_interval cfg))%Z -> (0 <= now - last <= b)%Z ->
  (b * phi_den cfg <= phi_num cfg * Z.min a (initial_interval cfg))%Z ->
  win_alive cfg now w = true.
Proof. exact steady_stays_alive. Qed.
Print Assumptions C11_steady_heartbeats_stay_alive.

Example C11_nonvacuous :
  let cfg := mkFdCfg 8 1 1000 10000000000 5000000000 100 50 in
  let w := win_report cfg 3000000000 (win_report cfg 2000000000 (win_report cfg 1000000000 new_window)) in
  cfg_ok cfg /\ wd_last w = Some 3000000000%Z /\
  Forall (fun v => 1000000000 <= v <= 1000000000)%Z (wd_vals w) /\
  (1000000000 * phi_den cfg <= phi_num cfg * Z.min 1000000000 (initial_interval cfg))%Z.
Proof.
  cbn zeta. split; [unfold cfg_ok; cbn; lia|]. split; [reflexivity|]. split; [|vm_compute; discriminate].
  change (Forall (fun v => 1000000000 <= v <= 1000000000)%Z [1000000000; 1000000000]%Z).
  constructor; [lia|]. constructor; [lia|]. constructor.
Qed.

(* "lower" is relative to everything the node has observed, not only to what it happens to store:
   the stored heartbeat of every member a node holds is never lowered by a message — stale,
   duplicated, relayed, or carrying a delta that RESETS the member's copy.  (On the pinned tree a
   reset set the stored heartbeat back to 0, after which lower, replayed heartbeats were accepted
   and counted as fresh: finding F-7, repaired in /repo by a `fix:` commit; this theorem is about
   the repaired code and did not hold before.)  Together with C11_stale_heartbeat_is_noop: a digest
   value at or below ANY value observed since the node learnt the member changes nothing. *)
Theorem C11_stored_heartbeat_never_lowered : forall zc now n m ord n' reply evs,
  msg_wf m -> process_message zc now n m ord = Ok (n', reply, evs) ->
  forall X c, nm_get X (cs_nodes (nd_cs n)) = Some c ->
    exists c', nm_get X (cs_nodes (nd_cs n')) = Some c' /\ (c_hb c <= c_hb c')%N.
Proof. intros zc now n m ord n' reply evs Hwf Hrun. exact (process_message_hb zc now n m ord n' reply evs Hwf Hrun). Qed.
Print Assumptions C11_stored_heartbeat_never_lowered.

(* a node delta — refused, incremental or resetting — does not touch the heartbeat *)
Theorem C11_deltas_keep_the_heartbeat : forall now c nd c1 st ev,
  nd_bounded nd -> apply_delta now c nd = Ok (c1, st, ev) -> c_hb c1 = c_hb c.
Proof. exact apply_delta_hb. Qed.
Print Assumptions C11_deltas_keep_the_heartbeat.

(* ... and over every schedule: along every step of the global relation from every reachable state
   (local writes, tombstone GC, the node's own heartbeats, clock, liveness evaluation, SYN creation,
   delivery of any message ever sent — loss, duplication, reordering, relays), the heartbeat a node
   stores for a member it keeps holding never decreases; a copy disappears only when a liveness
   evaluation removes the member (C12 then remembers the heartbeat held at removal and re-creates the
   member only for a strictly higher one).  So "the stored heartbeat" in C11_stale_heartbeat_is_noop
   is the highest value observed during the whole time the member has been held, whatever happened
   in between. *)
Theorem C11_heartbeats_monotone_along_steps : forall zc,
  (forall b c, zc b = Some c -> len c <= len b) -> forall strict g g',
  reachable zc strict g -> gstep zc strict g g' ->
  forall a n, node_at g a = Some n ->
    exists n', node_at g' a = Some n' /\
      (forall X c, nm_get X (cs_nodes (nd_cs n)) = Some c ->
         nm_get X (cs_nodes (nd_cs n')) = None \/
         exists c', nm_get X (cs_nodes (nd_cs n')) = Some c' /\ (c_hb c <= c_hb c')%N) /\
      ((forall b nb oracle, g' <> mkG (with_nodes (g_w g) (set_nth (w_nodes (g_w g)) b (update_nodes_liveness (w_now (g_w g)) nb oracle))) (g_sent g) (g_T g)) ->
       forall X c, nm_get X (cs_nodes (nd_cs n)) = Some c ->
         exists c', nm_get X (cs_nodes (nd_cs n')) = Some c' /\ (c_hb c <= c_hb c')%N).
Proof. exact heartbeats_monotone_along_steps. Qed.
Print Assumptions C11_heartbeats_monotone_along_steps.

(* ---- the tie of the decision guards to the sources (GuardTie.v; see C14.v for the scheme):
   the model function is the decision tree over the model's guards g_x, and each g_x cuts its
   operands' space along the same boundary as rs_x, the translation of today's Rust expression
   (regenerated on every run by tools/guards.py).  A source change that moves a boundary breaks
   this theorem on the next run. ---- *)
Theorem C11_freshness_guards_are_the_source_guards :
  (forall c hb, try_set_heartbeat c hb =
     if g_hb_first (c_hb c) then (mkCopy hb (c_gc c) (c_max c) (c_kvs c), false)
     else if g_hb_fresh hb (c_hb c) then (mkCopy hb (c_gc c) (c_max c) (c_kvs c), true)
     else (c, false)) /\
  ((forall hb nhb, rs_hb_first hb nhb = g_hb_first hb) \/ (forall hb nhb, rs_hb_first hb nhb = negb (g_hb_first hb))) /\
  ((forall nhb hb, rs_hb_fresh nhb hb = g_hb_fresh nhb hb) \/ (forall nhb hb, rs_hb_fresh nhb hb = negb (g_hb_fresh nhb hb))) /\
  ((forall i m, rs_fd_interval i m = g_fd_interval i m) \/ (forall i m, rs_fd_interval i m = negb (g_fd_interval i m))).
Proof. exact (conj try_set_heartbeat_is_the_tree (conj tie_hb_first (conj tie_hb_fresh tie_fd_interval))). Qed.
Print Assumptions C11_freshness_guards_are_the_source_guards.
