(* C06 — Local key-value reads, deletes, TTL and tombstone GC follow a simple model.
   The reference model is the sorted map [c_kvs] itself read through [kget]; every statement below
   says what an operation does to [kget] (for the touched key AND for every other key) and what
   the reads return. [copy_inv] (keys sorted, versions at most max_version) is an invariant
   (C04_copy_inv_preserved). *)
From Coq Require Import Lia ZArith.
From ChitchatModel Require Import Base SMap Ids Bytes NodeState SMap_lemmas NodeState_lemmas Inv KV_lemmas GuardsGen GuardTie.

(* reads: get hides plain tombstones only; a TTL-marked key stays visible *)
Theorem C06_get_visibility : forall c k,
  get c k = match kget k (c_kvs c) with
            | Some v => match v_st v with SDel _ => None | _ => Some (v_val v) end
            | None => None
            end
  /\ contains_key c k = match get c k with Some _ => true | None => false end.
Proof.
  intros c k. split; [|reflexivity]. unfold get, get_versioned, is_deleted.
  destruct (kget k (c_kvs c)) as [v|]; [|reflexivity]. destruct (v_st v); reflexivity.
Qed.
Print Assumptions C06_get_visibility.

(* full iteration and count: exactly the non-deleted entries, in key order *)
Theorem C06_key_values : forall c,
  key_values c = map (fun kv => (fst kv, v_val (snd kv)))
                     (filter (fun kv => negb (is_deleted (snd kv))) (c_kvs c))
  /\ num_key_values c = N.of_nat (length (key_values c)).
Proof. intros c. split; reflexivity. Qed.
Print Assumptions C06_key_values.

(* prefix iteration: exactly the visible keys with that prefix, in key order — also for the empty
   prefix and the empty key *)
Theorem C06_iter_prefix_exact : forall c p,
  ksorted (c_kvs c) ->
  iter_prefix c p = filter (fun kv => negb (is_deleted (snd kv)))
                           (filter (fun kv => is_prefix p (fst kv)) (c_kvs c)).
Proof. exact iter_prefix_exact. Qed.
Print Assumptions C06_iter_prefix_exact.

(* delete: invisible immediately; value cleared; deleting an absent key is a no-op *)
Theorem C06_delete : forall now c k,
  let c' := delete now c k in
  (kget k (c_kvs c) = None -> c' = c) /\
  (kget k (c_kvs c) <> None ->
     get c' k = None /\ kget k (c_kvs c') = Some (mkVV [] (c_max c + 1) (SDel now)) /\
     c_max c' = c_max c + 1 /\ c_gc c' = c_gc c) /\
  (forall k', k' <> k -> kget k' (c_kvs c') = kget k' (c_kvs c)).
Proof.
  intros now c k. cbn zeta. unfold delete. destruct (kget k (c_kvs c)) as [p|] eqn:E.
  - split; [discriminate|]. split.
    + intros _. unfold get, get_versioned. cbn [c_kvs c_max c_gc]. rewrite kget_kinsert_same. auto.
    + intros k' Hne. cbn [c_kvs]. apply kget_kinsert_other. congruence.
  - split; [reflexivity|]. split; [congruence|reflexivity].
Qed.
Print Assumptions C06_delete.

(* delete_after_ttl: the key stays visible with its value until collected *)
Theorem C06_delete_after_ttl : forall now c k,
  let c' := delete_after_ttl now c k in
  (kget k (c_kvs c) = None -> c' = c) /\
  (forall p, kget k (c_kvs c) = Some p ->
     get c' k = Some (v_val p) /\ kget k (c_kvs c') = Some (mkVV (v_val p) (c_max c + 1) (STtl now)) /\
     c_max c' = c_max c + 1 /\ c_gc c' = c_gc c) /\
  (forall k', k' <> k -> kget k' (c_kvs c') = kget k' (c_kvs c)).
Proof.
  intros now c k. cbn zeta. unfold delete_after_ttl. destruct (kget k (c_kvs c)) as [p|] eqn:E.
  - split; [discriminate|]. split.
    + intros p' [= <-]. unfold get, get_versioned. cbn [c_kvs c_max c_gc]. rewrite kget_kinsert_same. auto.
    + intros k' Hne. cbn [c_kvs]. apply kget_kinsert_other. congruence.
  - split; [reflexivity|]. split; [discriminate|reflexivity].
Qed.
Print Assumptions C06_delete_after_ttl.

(* set_with_ttl: visible, TTL-marked, fresh version; same TTL value again is a no-op *)
Theorem C06_set_with_ttl : forall now c k v, copy_inv c ->
  let c' := fst (set_with_ttl now c k v) in
  (c' = c /\ exists p t, kget k (c_kvs c) = Some p /\ v_val p = v /\ v_st p = STtl t)
  \/
  (get c' k = Some v /\ kget k (c_kvs c') = Some (mkVV v (c_max c + 1) (STtl now)) /\
   c_max c' = c_max c + 1 /\ c_gc c' = c_gc c /\
   forall k', k' <> k -> kget k' (c_kvs c') = kget k' (c_kvs c)).
Proof.
  intros now c k v Hinv. cbn zeta. unfold set_with_ttl, get_versioned.
  destruct (kget k (c_kvs c)) as [p|] eqn:Hk.
  - destruct (bytes_eqb (v_val p) v && match v_st p with STtl _ => true | _ => false end) eqn:Hu.
    + left. apply andb_true_iff in Hu as [H1 H2]. apply bytes_eqb_eq in H1. split; [reflexivity|].
      destruct (v_st p) as [|t|t] eqn:Est; try discriminate. exists p, t. auto.
    + right. unfold set_versioned_value. cbn [v_ver]. rewrite Hk.
      assert (Hle : c_max c + 1 <=? v_ver p = false).
      { apply N.leb_gt. destruct (ci_range c Hinv k p (kget_in _ _ _ Hk)). lia. }
      rewrite Hle. cbn [fst c_max c_gc c_kvs]. unfold get, get_versioned. cbn [c_kvs].
      rewrite kget_kinsert_same. cbn.
      replace (N.max (c_max c + 1) (c_max c)) with (c_max c + 1) by lia.
      repeat split; auto. intros k' Hne. apply kget_kinsert_other. congruence.
  - right. unfold set_versioned_value. cbn [v_ver]. rewrite Hk. cbn [fst c_max c_gc c_kvs].
    unfold get, get_versioned. cbn [c_kvs]. rewrite kget_kinsert_same. cbn.
    replace (N.max (c_max c + 1) (c_max c)) with (c_max c + 1) by lia.
    repeat split; auto. intros k' Hne. apply kget_kinsert_other. congruence.
Qed.
Print Assumptions C06_set_with_ttl.

(* a GC pass removes exactly the deleted or TTL-marked entries that are at least one grace period
   old (now >= stamp + grace: exactly one grace period old is collected), never a live or younger
   one, raises the watermark to the highest collected version and never lowers it *)
Theorem C06_gc_exact : forall now grace c,
  let c' := gc_keys_marked_for_deletion now grace c in
  (forall k v, In (k, v) (c_kvs c') <-> In (k, v) (c_kvs c) /\ gc_collectable now grace v = false) /\
  (forall v, gc_collectable now grace v = true <->
             exists t, (v_st v = SDel t \/ v_st v = STtl t) /\ (t + grace <= now)%Z) /\
  c_gc c <= c_gc c' /\ (forall e, In e (collected now grace c) -> v_ver (snd e) <= c_gc c') /\
  (c_gc c' = c_gc c \/ exists e, In e (collected now grace c) /\ v_ver (snd e) = c_gc c') /\
  c_max c' = c_max c /\ c_hb c' = c_hb c.
Proof. exact gc_exact. Qed.
Print Assumptions C06_gc_exact.

Example C06_nonvacuous :
  let c := mkCopy 1 0 3 [([x61], mkVV [x31] 1 SSet); ([x61; x62], mkVV [] 2 (SDel 5)); ([x62], mkVV [x32] 3 (STtl 7))] in
  ksorted (c_kvs c) /\ iter_prefix c [x61] = [([x61], mkVV [x31] 1 SSet)] /\
  c_gc (gc_keys_marked_for_deletion 15 10 c) = 2%N /\ get c [x62] = Some [x32].
Proof. vm_compute. repeat split; auto. Qed.

(* ---- the tie of the decision guards to the sources (GuardTie.v; see C14.v for the scheme) ---- *)
Theorem C06_gc_guards_are_the_source_guards :
  (forall now grace c,
     (forall v, gc_collectable now grace v =
        match time_of_start_scheduled_for_deletion (v_st v) with None => false | Some t => negb (g_gc_keep now t grace) end) /\
     gc_keys_marked_for_deletion now grace c =
       let removed := filter (fun kv => gc_collectable now grace (snd kv)) (c_kvs c) in
       mkCopy (c_hb c) (fold_left (fun g kv => g_gc_watermark (v_ver (snd kv)) g) removed (c_gc c)) (c_max c)
              (filter (fun kv => negb (gc_collectable now grace (snd kv))) (c_kvs c))) /\
  ((forall now t grace, rs_gc_keep now t grace = g_gc_keep now t grace) \/
   (forall now t grace, rs_gc_keep now t grace = negb (g_gc_keep now t grace))) /\
  (forall ver acc cgc, rs_gc_watermark ver acc cgc = g_gc_watermark ver acc).
Proof. exact (conj gc_uses_the_guards (conj tie_gc_keep tie_gc_watermark)). Qed.
Print Assumptions C06_gc_guards_are_the_source_guards.
