(* C15 — Key-change listeners fire exactly for matching prefixes.
   The subscription map is BTreeMap<prefix, ids>; [trigger_event] is the dispatch code
   (listener.rs:97-123: empty prefix handled apart, then a range scan from the key's first
   character to the key); [expected_calls] is the specification: every subscription whose prefix
   is a byte-prefix of the key, once, with the key stripped of that prefix. *)
From Coq Require Import Lia.
From ChitchatModel Require Import Base SMap Ids Bytes NodeState Listener SMap_lemmas Listener_lemmas GuardsGen GuardTie.

(* For every sorted subscription map whose prefixes hold their complete first character (true of
   every valid UTF-8 string, next theorem), every key — empty key, multi-byte first character —
   and every value: exactly the expected calls, in map order.  No panic outcome exists. *)
Theorem C15_dispatch_exact : forall m key value,
  sm_sorted bytes_cmp m -> prefixes_ok m ->
  trigger_event m key value = expected_calls m key value.
Proof. exact dispatch_exact. Qed.
Print Assumptions C15_dispatch_exact.

Theorem C15_valid_utf8_prefixes_are_ok : forall p, utf8_valid p = true -> complete_first_char p.
Proof. exact utf8_valid_complete_first_char. Qed.
Print Assumptions C15_valid_utf8_prefixes_are_ok.

(* the premises are invariants of subscribe / drop *)
Theorem C15_subscription_map_invariant :
  (forall m p lid, sm_sorted bytes_cmp m -> sm_sorted bytes_cmp (subscribe m p lid)) /\
  (forall m p lid, sm_sorted bytes_cmp m -> sm_sorted bytes_cmp (unsubscribe m p lid)) /\
  (forall m p lid, prefixes_ok m -> complete_first_char p -> prefixes_ok (subscribe m p lid)) /\
  (forall m p lid, prefixes_ok m -> prefixes_ok (unsubscribe m p lid)).
Proof.
  split; [exact subscribe_sorted|]. split; [exact unsubscribe_sorted|].
  split; [exact subscribe_prefixes_ok|exact unsubscribe_prefixes_ok].
Qed.
Print Assumptions C15_subscription_map_invariant.

(* a dropped handle produces no call: its id is in no list any more *)
Theorem C15_dropped_handle_not_called : forall m p lid key value k' i,
  sm_sorted bytes_cmp m -> prefixes_ok m ->
  In (i, k', value) (trigger_event (unsubscribe m p lid) key value) ->
  i = lid -> strip_prefix p key <> Some k' \/ exists q, q <> p /\ strip_prefix q key = Some k'.
Proof.
  intros m p lid key value k' i Hs Hok Hin ->.
  rewrite dispatch_exact in Hin by (try apply unsubscribe_sorted; try apply unsubscribe_prefixes_ok; assumption).
  rewrite expected_calls_eq in Hin. apply in_flat_map in Hin as ([q ids] & Hq & Hc).
  unfold calls_of in Hc. cbn [fst snd] in Hc.
  destruct (strip_prefix q key) as [k2|] eqn:Es; [|destruct Hc].
  apply in_map_iff in Hc as (j & Hj & Hjin). injection Hj as -> ->.
  destruct (list_eq_dec Byte.byte_eq_dec q p) as [->|Hne]; [|right; exists q; auto].
  exfalso. unfold unsubscribe in Hq. destruct (lm_get p m) as [l|] eqn:E.
  - pose proof (unsubscribe_sorted m p lid Hs) as Hs'. unfold unsubscribe in Hs'. rewrite E in Hs'.
    pose proof (sorted_in_get bytes_cmp bytes_cmp_eq bytes_cmp_antisym bytes_cmp_trans _ _ _ Hs' Hq) as Hg.
    unfold lm_insert in Hg. rewrite (sm_get_insert_same bytes_cmp bytes_cmp_eq) in Hg. injection Hg as <-.
    apply filter_In in Hjin as [_ Hf]. rewrite N.eqb_refl in Hf. discriminate.
  - pose proof (sorted_in_get bytes_cmp bytes_cmp_eq bytes_cmp_antisym bytes_cmp_trans _ _ _ Hs Hq) as Hg.
    unfold lm_get in E. congruence.
Qed.
Print Assumptions C15_dropped_handle_not_called.

(* an event is emitted exactly for an accepted insert of a non-deleted value: local set /
   set_with_ttl to a new value, replicated newer values, catch-up; deletions and stale updates
   emit nothing (delete / delete_after_ttl do not even go through this function) *)
Theorem C15_event_iff_accepted_and_visible : forall c k v,
  snd (set_versioned_value c k v)
  = if (match kget k (c_kvs c) with Some old => negb (v_ver v <=? v_ver old) | None => true end)
       && negb (is_deleted v)
    then [(k, v_val v)] else [].
Proof.
  intros c k v. unfold set_versioned_value.
  destruct (kget k (c_kvs c)) as [old|].
  - destruct (v_ver v <=? v_ver old); cbn [snd negb andb]; [reflexivity|]. destruct (is_deleted v); reflexivity.
  - cbn [snd andb]. destruct (is_deleted v); reflexivity.
Qed.
Print Assumptions C15_event_iff_accepted_and_visible.

Example C15_nonvacuous :
  (* prefixes "", "a", "é" (2 bytes), key "éa": exactly "" and "é" are called *)
  let m := subscribe (subscribe (subscribe [] [] 1) [x61] 2) [xc3; xa9] 3 in
  sm_sorted bytes_cmp m /\ prefixes_ok m /\
  trigger_event m [xc3; xa9; x61] [x76] = [(1, [xc3; xa9; x61], [x76]); (3, [x61], [x76])].
Proof.
  split; [vm_compute; auto|]. split; [|vm_compute; reflexivity].
  intros p ids Hin. vm_compute in Hin.
  destruct Hin as [E|[E|[E|[]]]]; injection E as <- _; unfold complete_first_char; vm_compute; lia.
Qed.

(* ---- the tie of the decision guards to the sources (GuardTie.v; see C14.v for the scheme) ---- *)
(* which of two entries of a key wins in set_versioned_value — hence whether a listener event fires *)
Theorem C15_acceptance_guard_is_the_source_guard :
  (forall c k v, set_versioned_value c k v =
     let mx := g_svv_max (v_ver v) (c_max c) in
     let ev := if is_deleted v then [] else [(k, v_val v)] in
     match kget k (c_kvs c) with
     | Some old =>
         if g_svv_older (v_ver old) (v_ver v)
         then (mkCopy (c_hb c) (c_gc c) mx (c_kvs c), [])
         else (mkCopy (c_hb c) (c_gc c) mx (kinsert k v (c_kvs c)), ev)
     | None => (mkCopy (c_hb c) (c_gc c) mx (kinsert k v (c_kvs c)), ev)
     end) /\
  ((forall old ver, rs_svv_older old ver = g_svv_older old ver) \/ (forall old ver, rs_svv_older old ver = negb (g_svv_older old ver))).
Proof. exact (conj set_versioned_value_is_the_tree tie_svv_older). Qed.
Print Assumptions C15_acceptance_guard_is_the_source_guard.
