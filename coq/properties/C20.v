(* C20 — The catch-up callback fires exactly when gossip reset a copy.
   [nd_cb] counts callback invocations.  A copy is reset by a message exactly when its GC
   watermark is raised while the message is processed ([grew]): an incremental application keeps
   the watermark, a reset strictly raises it (C04_apply_delta_frontier). *)
From ChitchatModel Require Import Base SMap Ids Bytes Params NodeState Stream DeltaWire Message
  Cluster FD Chitchat NodeState_lemmas Builder_lemmas Cluster_lemmas Chitchat_lemmas.

(* per delta: exactly once iff at least one copy was reset, whatever the number of copies reset;
   never for deltas that only apply incrementally, are rejected, or carry nothing.  Holds for
   every grammar-valid delta (everything the decoder can produce), honest or not. *)
Theorem C20_callback_exact : forall now n x,
  Forall nd_bounded (nds x) ->
  exists n' evs,
    process_delta now n x = Ok (n', evs) /\
    ((cf_has_cb (nd_cfg n) = true /\ grew (cs_nodes (nd_cs n)) (cs_nodes (nd_cs n'))) -> nd_cb n' = nd_cb n + 1) /\
    (~ (cf_has_cb (nd_cfg n) = true /\ grew (cs_nodes (nd_cs n)) (cs_nodes (nd_cs n'))) -> nd_cb n' = nd_cb n).
Proof.
  intros now n x Hb.
  destruct (process_delta_spec now n x Hb) as (n' & evs & H & _ & _ & _ & _ & _ & _ & _ & _ & H1 & H2).
  exists n', evs. auto.
Qed.
Print Assumptions C20_callback_exact.

(* the flag is raised exactly by node deltas admitted as ApplyAfterReset: in terms of statuses *)
Theorem C20_reset_iff_watermark_raised : forall now c d, nd_bounded d ->
  exists c' st evs, apply_delta now c d = Ok (c', st, evs) /\
    (st = ApplyAfterReset <-> c_gc c < c_gc c').
Proof.
  intros now c d Hb.
  destruct (apply_delta_frontier now c d Hb) as (c' & st & evs & Hok & _ & _ & HR & HA & HX).
  exists c', st, evs. split; [exact Hok|]. split.
  - intros ->. apply (HX eq_refl).
  - intros Hlt. destruct st; [| |reflexivity].
    + destruct (HR eq_refl) as [-> _]. apply N.lt_irrefl in Hlt. contradiction.
    + destruct (HA eq_refl) as (Hg & _). rewrite Hg in Hlt. apply N.lt_irrefl in Hlt. contradiction.
Qed.
Print Assumptions C20_reset_iff_watermark_raised.

(* SYN, BadCluster: no delta is processed, the counter cannot move *)
Theorem C20_no_callback_without_delta : forall zc now n m ord n' r evs,
  (exists c d, m = Syn c d) \/ m = BadCluster ->
  process_message zc now n m ord = Ok (n', r, evs) -> nd_cb n' = nd_cb n.
Proof.
  intros zc now n m ord n' r evs [(c & d & ->)| ->]; cbn [process_message].
  - destruct (negb _); [intros [= <- _ _]; reflexivity|].
    destruct (P_MAX_UDP <? _); [discriminate|].
    match goal with |- rmap _ ?x = _ -> _ => destruct x; cbn [rmap]; try discriminate end.
    intros [= <- _ _].
    destruct (report_heartbeats_fields now d (update_self_heartbeat n)) as (_ & _ & _ & _ & H).
    cbn zeta in H. rewrite H. reflexivity.
  - intros [= <- _ _]. reflexivity.
Qed.
Print Assumptions C20_no_callback_without_delta.

Example C20_nonvacuous :
  (* a copy at (gc 0, max 1) receives a from-0 delta with watermark 5: reset, counted once *)
  let c := mkCopy 3 0 1 [([x61], mkVV [x31] 1 SSet)] in
  let d := mkND (mkId [x78] 0 (V4 1 1)) 0 5 [mkKvm [x62] [x32] 6 MSet] 6 in
  nd_bounded d /\ exists c' evs, apply_delta 0 c d = Ok (c', ApplyAfterReset, evs) /\ c_gc c' = 5.
Proof.
  split.
  - intros m [<-|[]]. vm_compute. discriminate.
  - eexists _, _. split; vm_compute; reflexivity.
Qed.
