(* C14 — Sender and receiver agree on reset versus incremental update.
   Property theorems only; each is closed by [exact <lemma>] and followed by Print Assumptions.
   [mk_node_delta i s gc max n mv] is the node delta the sender computes for member [i] from its
   copy [s] and the receiver's digest entry (gc, max), when the size budget admits the first
   [n] stale key-values ([mv]: the SetMaxVersion op fitted) — DeltaRefine.v ties it to the
   MTU-bounded loop of Cluster.v.  All statements are for ALL copies, watermarks (including
   watermark above max version), keys, statuses and truncation points. *)
From ChitchatModel Require Import Base SMap Ids Bytes Params NodeState Stream DeltaWire Message Cluster
  FD Chitchat Monitors NodeState_lemmas Agreement Inv DeltaRefine Compute_lemmas Prefix_lemmas Monitors_sound MonitorsD MonitorsP GuardsGen GuardTie.

(* never refused as inapplicable or from the future; reset exactly when both the receiver's max
   version and watermark lie below the sender's watermark, and then from version 0; the only
   possible refusal is the empty, SetMaxVersion-less delta (nothing fitted) *)
Theorem C14_agreement_status : forall i s r n mv d,
  mk_node_delta i s (c_gc r) (c_max r) n mv = Some d ->
  (check_delta_status r d = ApplyAfterReset <-> (c_gc r < c_gc s /\ c_max r < c_gc s)) /\
  (check_delta_status r d = ApplyAfterReset -> d_from d = 0) /\
  (check_delta_status r d = Reject -> d_kvs d = [] /\ d_max d = 0).
Proof. exact agreement_status. Qed.
Print Assumptions C14_agreement_status.

(* applying it never aborts and strictly increases (GC watermark, max version) *)
Theorem C14_agreement_progress : forall now i s r n mv d,
  mk_node_delta i s (c_gc r) (c_max r) n mv = Some d ->
  exists r' st evs, apply_delta now r d = Ok (r', st, evs) /\
    (st <> Reject -> lex_lt_p (monotonic_property r) (monotonic_property r')).
Proof. exact agreement_progress. Qed.
Print Assumptions C14_agreement_progress.

(* space permitting (one key-value and the SetMaxVersion op fit), the delta is not refused *)
Theorem C14_agreement_nonempty : forall i s r n mv d,
  mk_node_delta i s (c_gc r) (c_max r) n mv = Some d ->
  (0 < n)%nat -> mv = true -> check_delta_status r d <> Reject.
Proof. exact agreement_nonempty. Qed.
Print Assumptions C14_agreement_nonempty.

(* the sender offers something exactly when it is ahead *)
Theorem C14_offer_iff_ahead : forall i s gc mx n mv,
  (exists d, mk_node_delta i s gc mx n mv = Some d) <-> mx < c_max s.
Proof.
  intros. unfold mk_node_delta. destruct (c_max s <=? mx) eqn:H.
  - apply N.leb_le in H. split; [intros [d Hd]; discriminate|intros; exfalso; apply N.lt_nge in H0; auto].
  - apply N.leb_gt in H. split; [auto|intros _; eexists; reflexivity].
Qed.
Print Assumptions C14_offer_iff_ahead.

(* Tie to the code path: every node delta of a delta computed by the MTU-bounded loop
   (Cluster.delta_loop, any budget, compressor and shuffle outcome) for a stale candidate [n] is
   [mk_node_delta] of the sender's copy and the receiver's digest entry (absent entry = (0,0)),
   for the number [j] of key-values that fitted. *)
Theorem C14_loop_produces_mk_node_delta : forall cs dg sched mtu x,
  cluster_inv cs -> delta_shape cs dg sched mtu x ->
  forall nd, In nd (nds x) ->
    exists n j mv dgc dmax,
      In n (stale_nodes cs dg sched) /\
      (match dg_get (sn_id n) dg with Some g => (g_gc g, g_max g) | None => (0, 0) end) = (dgc, dmax) /\
      nm_get (sn_id n) (cs_nodes cs) = Some (sn_copy n) /\
      mk_node_delta (sn_id n) (sn_copy n) dgc dmax j mv = Some nd.
Proof.
  intros cs dg sched mtu x Hinv Hsh nd Hin.
  destruct (computed_delta_nodes cs dg sched mtu x Hinv Hsh nd Hin) as (n & j & mv & Hn & -> & _ & Hget & _).
  destruct (node_piece_is_mk_node_delta cs dg sched n j mv Hn) as (dgc & dmax & Hd & Hmk).
  exists n, j, mv, dgc, dmax. auto.
Qed.
Print Assumptions C14_loop_produces_mk_node_delta.

(* non-vacuity: a concrete sender/receiver pair in the reset case, watermark above max version *)
Example C14_nonvacuous :
  let s := mkCopy 5 4 6 [([x61], mkVV [x31] 5 SSet); ([x62], mkVV [] 6 (SDel 0))] in
  let r := mkCopy 2 3 1 [] in
  exists d, mk_node_delta (mkId [x6e] 0 (V4 1 1)) s (c_gc r) (c_max r) 1 true = Some d /\
            check_delta_status r d = ApplyAfterReset /\ d_from d = 0 /\ length (d_kvs d) = 1%nat.
Proof. eexists. split; [vm_compute; reflexivity|]. vm_compute. repeat split. Qed.

(* the sender-side monitor evaluated on the implementation's replies (c14_delta_ok: every node delta
   starts from 0 iff the peer's advertised watermark and max version are both below the sender's
   watermark, else from the peer's advertised max version) is satisfied by every delta the model
   computes: it cannot raise an alarm on an implementation that agrees with the model *)
Theorem C14_computed_deltas_pass_the_monitor : forall cs dg sched mtu x,
  cluster_inv cs -> delta_shape cs dg sched mtu x -> c14_delta_ok dg (cs_nodes cs) x = true.
Proof. exact computed_delta_passes_c14. Qed.
Print Assumptions C14_computed_deltas_pass_the_monitor.

(* the agreement itself as a monitor on the implementation's replies (c14_agree_ok): a receiver
   holding the copy its digest advertised takes on each node delta the decision the sender took —
   reset iff the sender decided to reset (what the header's watermark must make it do) — and it
   refuses only an empty node delta.  Satisfied by every delta the model computes. *)
Theorem C14_computed_deltas_agree_with_the_receiver : forall cs dg sched mtu x,
  cluster_inv cs -> delta_shape cs dg sched mtu x -> c14_agree_ok dg (cs_nodes cs) x = true.
Proof. exact computed_delta_passes_agreement. Qed.
Print Assumptions C14_computed_deltas_agree_with_the_receiver.

(* "Whenever the sender's copy is ahead the delta is non-empty (space permitting)", at the level of a
   whole computed delta and for EVERY shuffle outcome: if some member the sender does not
   quarantine is ahead of the digest, the budget is a legal one, and every such member's header
   plus first operation fits it, the delta the sender computes is not empty.  This is the boolean
   the C14 "offer" monitor evaluates on the implementation's replies. *)
Theorem C14_sender_ahead_offers_something : forall zc,
  (forall b c, zc b = Some c -> len c <= len b) -> forall cs dg mtu sched ord x,
  cluster_inv cs -> compute_delta zc cs dg mtu sched ord = Ok x ->
  c14_offer_ok (cs_nodes cs) dg sched mtu x = true.
Proof. exact computed_delta_passes_offer. Qed.
Print Assumptions C14_sender_ahead_offers_something.

(* non-vacuity of the monitor's guard: it does constrain something *)
Example C14_offer_monitor_rejects_an_empty_delta :
  let c := fst (set new_copy [x6b] [x31]) in
  c14_offer_ok [(mkId [x41] 0 (V4 1 1), c)] [] [] 1000 (mkDelta [] 0) = false.
Proof. vm_compute. reflexivity. Qed.

(* ---- the tie of the decision guards to the sources (GuardTie.v) ----
   tools/guards.py re-translates, on every run, the Rust expression of each guard below into the
   function rs_<guard> (GuardsGen.v).  The model function is the decision tree over the model's
   guards g_<guard> (by computation), and each g_<guard> cuts its operands' space along the same
   boundary as rs_<guard> (equal, or equal to its negation — a rewrite that tests the opposite
   condition and swaps the branches is harmless; see GuardTie.v).  A source change that moves a
   boundary (`<` for `<=`, another operand, a dropped conjunct) breaks this theorem on the next
   run. *)
Theorem C14_decision_guards_are_the_source_guards :
  (forall c d, check_delta_status c d =
     if g_cds_future (d_from d) (c_max c) then Reject
     else if negb (g_cds_compat (d_gc d) (c_gc c) (c_max c))
          then (if g_cds_from_nonzero (d_from d) then Reject else ApplyAfterReset)
          else if g_cds_newer (c_max c) (d_max d) then Apply else Reject) /\
  ((forall dgc cgc cmax dmax dfrom, rs_cds_future dgc cgc cmax dmax dfrom = g_cds_future dfrom cmax) \/
   (forall dgc cgc cmax dmax dfrom, rs_cds_future dgc cgc cmax dmax dfrom = negb (g_cds_future dfrom cmax))) /\
  ((forall dgc cgc cmax dmax dfrom, rs_cds_compat dgc cgc cmax dmax dfrom = g_cds_compat dgc cgc cmax) \/
   (forall dgc cgc cmax dmax dfrom, rs_cds_compat dgc cgc cmax dmax dfrom = negb (g_cds_compat dgc cgc cmax))) /\
  ((forall dgc cgc cmax dmax dfrom, rs_cds_from_nonzero dgc cgc cmax dmax dfrom = g_cds_from_nonzero dfrom) \/
   (forall dgc cgc cmax dmax dfrom, rs_cds_from_nonzero dgc cgc cmax dmax dfrom = negb (g_cds_from_nonzero dfrom))) /\
  ((forall dgc cgc cmax dmax dfrom, rs_cds_newer dgc cgc cmax dmax dfrom = g_cds_newer cmax dmax) \/
   (forall dgc cgc cmax dmax dfrom, rs_cds_newer dgc cgc cmax dmax dfrom = negb (g_cds_newer cmax dmax))) /\
  (* the sender: the version a node delta starts from *)
  (forall dg sched i c n, stale_candidate dg sched (i, c) = Some n ->
     let '(dgc, dmax) := match dg_get i dg with Some g => (g_gc g, g_max g) | None => (0, 0)%N end in
     sn_from n = if g_should_reset dgc dmax (c_gc c) then 0%N else dmax) /\
  ((forall dgc dmax sgc smax, rs_should_reset dgc dmax sgc smax = g_should_reset dgc dmax sgc) \/
   (forall dgc dmax sgc smax, rs_should_reset dgc dmax sgc smax = negb (g_should_reset dgc dmax sgc))).
Proof.
  exact (conj check_delta_status_is_the_tree (conj tie_cds_future (conj tie_cds_compat (conj tie_cds_from_nonzero
          (conj tie_cds_newer (conj stale_candidate_uses_the_guard tie_should_reset)))))).
Qed.
Print Assumptions C14_decision_guards_are_the_source_guards.
