(* C10 — Failure detection is complete with a bounded delay.
   Instants and durations are integer nanoseconds; phi <= threshold is evaluated exactly
   (cross-multiplied).  PARTIAL: the code evaluates the same inequality in f64; the correspondence
   suite compares verdicts outside a relative band of 2^-20 around the threshold (inside it the
   model follows the implementation's verdict, which is why the theorems below are stated for the
   exact verdict, oracle = None). *)
From Coq Require Import Lia ZArith.
From ChitchatModel Require Import Base SMap Ids Params NodeState FD SMap_lemmas FD_lemmas GuardsGen GuardTie.
Local Open Scope Z_scope.

(* whatever the earlier heartbeat pattern (the window's content, any size 1..), if the last
   fresh heartbeat report is older than threshold x max(max_interval, initial_interval) the
   verdict is "not alive" *)
Theorem C10_silent_too_long_not_alive : forall cfg now w last,
  cfg_ok cfg -> win_inv cfg w -> wd_last w = Some last ->
  phi_num cfg * Z.max (max_interval cfg) (initial_interval cfg) < (now - last) * phi_den cfg ->
  win_alive cfg now w = false.
Proof. exact silent_too_long_not_alive. Qed.
Print Assumptions C10_silent_too_long_not_alive.

(* fewer than two usable reports: no interval was ever recorded, phi is undefined, not alive;
   the first report of a window never yields an interval *)
Theorem C10_needs_two_reports : forall cfg now,
  win_alive cfg now new_window = false /\
  (forall t, win_alive cfg now (win_report cfg t new_window) = false) /\
  (forall w, wd_vals w = [] -> win_alive cfg now w = false) /\
  (forall w, wd_last w = None -> win_alive cfg now w = false).
Proof.
  intros cfg now. split; [reflexivity|]. split; [intros t; reflexivity|].
  split; [intros w; apply no_interval_not_alive|intros w; apply never_reported_not_alive].
Qed.
Print Assumptions C10_needs_two_reports.

(* window well-formedness is an invariant of reporting and resetting *)
Theorem C10_window_invariant : forall cfg,
  win_inv cfg new_window /\
  (forall now w, win_inv cfg w -> (forall t, wd_last w = Some t -> t <= now) -> win_inv cfg (win_report cfg now w)) /\
  (forall w, win_inv cfg w -> win_inv cfg (win_reset w)).
Proof. intros cfg. split; [apply new_window_inv|]. split; [apply win_report_inv|apply win_reset_inv]. Qed.
Print Assumptions C10_window_invariant.

(* detector level: the evaluation of such a member (or of a member the detector has no window
   for) puts it in the dead set and takes it out of the live set *)
Theorem C10_evaluation_reports_dead : forall cfg now f i,
  cfg_ok cfg -> fd_inv f ->
  (match wm_get i (fd_samples f) with
   | None => True
   | Some w => wd_vals w = [] \/ wd_last w = None \/
               (win_inv cfg w /\ exists last, wd_last w = Some last /\
                  phi_num cfg * Z.max (max_interval cfg) (initial_interval cfg) < (now - last) * phi_den cfg)
   end) ->
  let f' := fd_update_node_liveness cfg now f i None in
  is_mem i (fd_live f') = false /\ dm_get i (fd_dead f') <> None /\ fd_inv f'.
Proof.
  intros cfg now f i Hcfg Hinv Hw. cbn zeta.
  assert (Hv : fd_is_alive cfg now f i None = false).
  { unfold fd_is_alive. destruct (wm_get i (fd_samples f)) as [w|]; [|reflexivity].
    assert (Ha : win_alive cfg now w = false).
    { destruct Hw as [H|[H|(Hwi & last & Hl & Hs)]];
        [apply no_interval_not_alive; exact H|apply never_reported_not_alive; exact H|].
      eapply silent_too_long_not_alive; eauto. }
    rewrite Ha. destruct (phi_near cfg now w); reflexivity. }
  pose proof (fd_update_verdict cfg now f i None Hinv) as H. cbn zeta in H. rewrite Hv in H.
  destruct H as [H1 H2]. split; [exact H1|]. split; [exact H2|].
  apply (fd_update_node_liveness_spec cfg now f i None Hinv).
Qed.
Print Assumptions C10_evaluation_reports_dead.

(* only strictly higher heartbeats reach the detector: state.rs:370-383 *)
Theorem C10_only_fresh_heartbeats_are_reported : forall c hb,
  snd (try_set_heartbeat c hb) = true <-> (c_hb c <> 0 /\ c_hb c < hb)%N.
Proof.
  intros c hb. unfold try_set_heartbeat.
  destruct (c_hb c =? 0)%N eqn:E0; cbn [snd].
  - apply N.eqb_eq in E0. split; [discriminate|]. intros [H _]. congruence.
  - apply N.eqb_neq in E0. destruct (c_hb c <? hb)%N eqn:E1; cbn [snd].
    + apply N.ltb_lt in E1. split; auto.
    + apply N.ltb_ge in E1. split; [discriminate|]. intros [_ H]. apply N.lt_nge in H. contradiction.
Qed.
Print Assumptions C10_only_fresh_heartbeats_are_reported.

Example C10_nonvacuous :
  let cfg := mkFdCfg 8 1 1000 10000000000 5000000000 100 50 in
  let w := win_report cfg 2000000000 (win_report cfg 1000000000 new_window) in
  cfg_ok cfg /\ win_inv cfg w /\ win_alive cfg 3000000000 w = true /\ win_alive cfg 90000000000 w = false.
Proof.
  cbn zeta. split; [unfold cfg_ok; cbn; lia|]. split.
  - split; cbn; [repeat constructor; lia|lia].
  - split; vm_compute; reflexivity.
Qed.

(* The usable-interval rule evaluated by the C10 monitor on the implementation's evaluations, as
   three facts about the model: (1) an evaluation that finds a member not alive leaves its sampling
   window without intervals; (2) a report adds an interval only when it comes at most max_interval
   after the previous report, and never removes the need for one; (3) a member is found alive only
   if its window holds an interval (C10_needs_two_reports).  Hence: alive at an evaluation implies
   two reports at most max_interval apart since the evaluation that last found it not alive. *)
Theorem C10_window_emptied_when_found_not_alive : forall cfg now f i oracle w,
  fd_is_alive cfg now f i oracle = false -> wm_get i (fd_samples f) = Some w ->
  wm_get i (fd_samples (fd_update_node_liveness cfg now f i oracle)) = Some (win_reset w) /\
  wd_vals (win_reset w) = [].
Proof.
  intros cfg now f i oracle w Hna Hw. unfold fd_update_node_liveness. rewrite Hna, Hw. cbn [fd_samples].
  split; [|reflexivity].
  apply (sm_get_insert_same id_cmp id_cmp_eq).
Qed.
Print Assumptions C10_window_emptied_when_found_not_alive.

Theorem C10_interval_recorded_only_within_max_interval : forall cfg now w,
  wd_vals (win_report cfg now w) = wd_vals w \/
  exists last, wd_last w = Some last /\ now - last <= max_interval cfg /\
               wd_vals (win_report cfg now w) = firstn (window_size cfg) ((now - last) :: wd_vals w).
Proof.
  intros cfg now w. unfold win_report. destruct (wd_last w) as [last|]; [|left; reflexivity].
  destruct (now - last <=? max_interval cfg) eqn:E; [|left; reflexivity].
  right. exists last. split; [reflexivity|]. split; [apply Z.leb_le; exact E|reflexivity].
Qed.
Print Assumptions C10_interval_recorded_only_within_max_interval.

(* ---- the tie of the decision guards to the sources (GuardTie.v; see C14.v for the scheme):
   the model function is the decision tree over the model's guards g_x, and each g_x cuts its
   operands' space along the same boundary as rs_x, the translation of today's Rust expression
   (regenerated on every run by tools/guards.py).  A source change that moves a boundary breaks
   this theorem on the next run. ---- *)
Theorem C10_window_guard_is_the_source_guard :
  (forall cfg now w, win_report cfg now w =
     match wd_last w with
     | Some last =>
         if g_fd_interval (now - last) (max_interval cfg)
         then mkWin (firstn (window_size cfg) ((now - last)%Z :: wd_vals w)) (Some now)
         else mkWin (wd_vals w) (Some now)
     | None => mkWin (wd_vals w) (Some now)
     end) /\
  ((forall i m, rs_fd_interval i m = g_fd_interval i m) \/ (forall i m, rs_fd_interval i m = negb (g_fd_interval i m))).
Proof. exact (conj win_report_is_the_tree tie_fd_interval). Qed.
Print Assumptions C10_window_guard_is_the_source_guard.
