(* C05 — Single writer: gossip never changes a node's own namespace.  Same step relation and
   premises as C03 (honest peers: every delivered message was sent by some node; every
   ChitchatId has at most one incarnation). *)
From Coq Require Import Lia.
From ChitchatModel Require Import Base SMap Ids Bytes Params NodeState Stream DeltaWire Message Cluster
  FD Chitchat World Monitors SMap_lemmas Inv Compute_lemmas NodeInv Truth NodeTruth Reach.

Section C05.
  Variable zc : bytes -> option bytes.
  Hypothesis zc_len : forall b c, zc b = Some c -> len c <= len b.
  (* for both step relations: with (strict = true) or without (false) the exclusion of KF-1 deliveries *)
  Variable strict : bool.

  (* In every reachable state, delivering ANY message ever sent — however old, duplicated or
     relayed — to any node leaves that node's own key-values, versions, statuses, max version and
     GC watermark exactly as they were; its heartbeat moves by the +1 of its own activity. *)
  Theorem C05_own_namespace_untouched_by_gossip : forall g, reachable zc strict g ->
    forall a n m ord n' reply evs,
      node_at g a = Some n -> In m (g_sent g) ->
      process_message zc (w_now (g_w g)) n m ord = Ok (n', reply, evs) ->
      forall c, nm_get (self_id n) (cs_nodes (nd_cs n)) = Some c ->
        nm_get (self_id n) (cs_nodes (nd_cs n')) = Some (inc_heartbeat c) /\ self_id n' = self_id n.
  Proof.
    intros g Hr a n m ord n' reply evs Hn Hm Hrun c Hc.
    destruct (reachable_inv zc zc_len strict g Hr) as [Hg _].
    destruct (gi_nodes g Hg a n Hn) as [Hinv Hint Hown]. destruct (gi_sent g Hg m Hm) as [Hmi Hmw].
    destruct (process_message_truth zc zc_len (g_T g) _ n m ord n' reply evs (gi_wf g Hg) Hinv Hint Hown Hmi Hmw Hrun)
      as (_ & _ & _ & Hself & _ & Hsingle).
    split; [apply Hsingle; exact Hc|exact Hself].
  Qed.

  (* consequently the owner is always the most advanced copy of its own state *)
  Theorem C05_owner_is_most_advanced : forall g, reachable zc strict g ->
    forall a n b nb c cown,
      node_at g a = Some n -> node_at g b = Some nb ->
      nm_get (self_id nb) (cs_nodes (nd_cs n)) = Some c ->
      nm_get (self_id nb) (cs_nodes (nd_cs nb)) = Some cown ->
      c_max c <= c_max cown /\ c_gc c <= c_max cown /\ c_hb c <= c_hb cown.
  Proof.
    intros g Hr a n b nb c cown Hn Hnb Hc Hcown.
    destruct (reachable_inv zc zc_len strict g Hr) as [Hg _].
    destruct (gi_nodes g Hg a n Hn) as [_ Hint _]. destruct (Hint _ c Hc) as [_ B C D].
    destruct (gi_nodes g Hg b nb Hnb) as [_ _ (c0 & Hc0 & Hm0 & Hh0)].
    rewrite Hcown in Hc0. injection Hc0 as <-. rewrite Hm0, Hh0. auto.
  Qed.

  (* the mechanism: a delta about a copy that is as advanced as its owner is always refused *)
  Theorem C05_deltas_about_self_are_refused : forall T c nd,
    nd_int T nd -> c_max c = t_max T (d_id nd) -> check_delta_status c nd = Reject.
  Proof.
    intros T c nd [_ Hn2 Hn3] Hmax. unfold check_delta_status.
    destruct (c_max c <? d_from nd); [reflexivity|].
    assert (Hc : (d_gc nd <=? c_gc c) || (d_gc nd <=? c_max c) = true).
    { apply orb_true_iff. right. apply N.leb_le. lia. }
    rewrite Hc. cbn [negb].
    assert (Hm : c_max c <? d_max nd = false) by (apply N.ltb_ge; lia). rewrite Hm. reflexivity.
  Qed.
End C05.
Print Assumptions C05_own_namespace_untouched_by_gossip.
Print Assumptions C05_owner_is_most_advanced.
Print Assumptions C05_deltas_about_self_are_refused.
