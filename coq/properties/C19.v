(* C19 — The gossip server survives transport faults and stops cleanly (decision logic and lock
   discipline of the loop; PARTIAL: tokio's scheduling, select! fairness and the real mutex are
   runtime behaviour that the model does not exhibit — the scripted-transport suite tests them).
   Send results are not even an input of [Loop.step]: errors are logged and dropped. *)
From Coq Require Import Lia.
From ChitchatModel Require Import Base Params Loop.

Definition benign (e : levent) : bool :=
  match e with
  | ERecv _ false | ERecvSkipped | ETick | ECmdGossip | EUserLock => true
  | _ => false
  end.

(* no sequence of received messages, undecodable datagrams / transient errors, ticks, gossip
   commands and user lock acquisitions — with arbitrary send failures — stops the loop *)
Theorem C19_survives_benign_events : forall es s,
  ls_stopped s = None -> forallb benign es = true -> ls_stopped (fst (run s es)) = None.
Proof.
  induction es as [|e r IH]; intros s Hs Hb; cbn [run]; [exact Hs|].
  cbn [forallb] in Hb. apply andb_true_iff in Hb as [He Hr].
  destruct (step s e) as [s1 a1] eqn:E1. destruct (run s1 r) as [s2 a2] eqn:E2. cbn [fst].
  assert (Hs1 : ls_stopped s1 = None).
  { unfold step in E1. rewrite Hs in E1.
    destruct e as [k p| | | | | | |]; try discriminate He; try (injection E1 as <- _; auto).
    destruct p; [discriminate He|]. injection E1 as <- _. reflexivity. }
  specialize (IH s1 Hs1 Hr). rewrite E2 in IH. exact IH.
Qed.
Print Assumptions C19_survives_benign_events.

(* while running: every tick increments the heartbeat and evaluates liveness; every received
   message increments the heartbeat; every same-cluster SYN gets a reply attempt *)
Theorem C19_keeps_heartbeating_and_answering : forall s,
  ls_stopped s = None ->
  ls_hb_incs (fst (step s ETick)) = ls_hb_incs s + 1 /\
  ls_evals (fst (step s ETick)) = ls_evals s + 1 /\
  (forall k, ls_hb_incs (fst (step s (ERecv k false))) = ls_hb_incs s + 1) /\
  (forall n, In (ASend OSynAck) (snd (step s (ERecv (KSyn true n) false)))) /\
  (forall n, In (ASend OBadCluster) (snd (step s (ERecv (KSyn false n) false)))) /\
  In (ASend OSyn) (snd (step s ECmdGossip)).
Proof.
  intros s Hs. unfold step. rewrite Hs. cbn. repeat split; auto.
Qed.
Print Assumptions C19_keeps_heartbeating_and_answering.

(* a fatal receive error or a panic ends the loop and is reported; a shutdown request (or the
   last handle being dropped) always completes; a stopped loop does nothing *)
Theorem C19_termination : forall s,
  ls_stopped s = None ->
  ls_stopped (fst (step s ERecvFatal)) = Some LErr /\
  (forall k, ls_stopped (fst (step s (ERecv k true))) = Some LPanicked) /\
  ls_stopped (fst (step s ECmdShutdown)) = Some LOk /\
  ls_stopped (fst (step s ECmdClosed)) = Some LOk.
Proof. intros s Hs. unfold step. rewrite Hs. cbn. repeat split; auto. Qed.
Print Assumptions C19_termination.

Theorem C19_stopped_is_final : forall s e r, ls_stopped s = Some r -> step s e = (s, []).
Proof. intros s e r Hs. unfold step. rewrite Hs. reflexivity. Qed.
Print Assumptions C19_stopped_is_final.

(* lock discipline: in every micro-trace of every event sequence, no send happens while the
   mutex is held, lock/unlock alternate, user acquisitions never overlap the loop's, and nothing
   ends holding the lock *)
Lemma gossip_actions_balanced n : forall b, discipline 0 (gossip_actions n ++ b) = discipline 0 b.
Proof. induction n as [|n IH]; intros b; cbn; [reflexivity|apply IH]. Qed.

Lemma step_balanced s e : forall b, discipline 0 (snd (step s e) ++ b) = discipline 0 b.
Proof.
  intros b. unfold step. destruct (ls_stopped s); [reflexivity|].
  destruct e as [k p| | | | | | |]; cbn [snd app]; try reflexivity.
  - destruct p; cbn; [reflexivity|]. destruct (reply_of k); reflexivity.
  - cbn. rewrite <- app_assoc. rewrite gossip_actions_balanced. reflexivity.
Qed.

Theorem C19_lock_discipline : forall es s, discipline 0 (snd (run s es)) = true.
Proof.
  induction es as [|e r IH]; intros s; cbn [run]; [reflexivity|].
  destruct (step s e) as [s1 a1] eqn:E1. destruct (run s1 r) as [s2 a2] eqn:E2. cbn [snd].
  pose proof (step_balanced s e a2) as Hb. rewrite E1 in Hb. cbn [snd] in Hb. rewrite Hb.
  specialize (IH s1). rewrite E2 in IH. exact IH.
Qed.
Print Assumptions C19_lock_discipline.

(* a gossip round goes through all its destinations whatever the sends return (a refused, unroutable
   or oversized datagram is logged and dropped): the tick's micro-trace contains exactly one SYN send
   per target of the round — send results are not even an input of the step — and ends with the
   liveness evaluation.  (Seeded change C17j — return from the round at the first send error — is the
   negation of this; the `round` and `loop` suites observe it on the implementation.) *)
Definition is_syn_send (a : action) : bool := match a with ASend OSyn => true | _ => false end.
Lemma gossip_actions_sends : forall n, length (filter is_syn_send (gossip_actions n)) = n.
Proof. induction n as [|n IH]; cbn; [reflexivity|]. rewrite IH. reflexivity. Qed.
Theorem C19_a_round_sends_to_every_target_and_evaluates : forall s,
  ls_stopped s = None ->
  length (filter is_syn_send (snd (step s ETick))) = round_targets s /\
  ls_evals (fst (step s ETick)) = ls_evals s + 1 /\
  ls_stopped (fst (step s ETick)) = None.
Proof.
  intros s Hs. unfold step. rewrite Hs. cbn [fst snd ls_evals ls_stopped]. split; [|split; reflexivity].
  rewrite !filter_app, !app_length, gossip_actions_sends. cbn. lia.
Qed.
Print Assumptions C19_a_round_sends_to_every_target_and_evaluates.
