(* C03 — Integrity: copies hold only what the owner wrote and never run ahead.
   Global statement over the step relation [Reach.gstep]: local writes / deletes / TTL writes of
   any node, tombstone GC and liveness evaluation (with member removal) at any time on any node,
   heartbeats, clock ticks, late joins (every ChitchatId used by at most one incarnation), SYN
   creation, and delivery of ANY message ever sent to ANY node, any number of times, in any order
   (loss, duplication, reordering, delay, partition, mis-routing, relays through third parties),
   for every MTU truncation, compressor behaviour and shuffle outcome.
   [g_T g] is the ghost truth: per member, the set of writes its OWNER performed through its
   local API (extended only by the owner's own write steps: sync_truth), the owner's max version
   and heartbeat. *)
From Coq Require Import Lia.
From ChitchatModel Require Import Base SMap Ids Bytes Params NodeState Stream DeltaWire Message Cluster
  FD Chitchat World Monitors SMap_lemmas Inv Compute_lemmas NodeInv Truth NodeTruth Reach Monitors_lemmas.

Section C03.
  Variable zc : bytes -> option bytes.
  Hypothesis zc_len : forall b c, zc b = Some c -> len c <= len b.
  (* for both step relations: with (strict = true) or without (false) the exclusion of KF-1 deliveries *)
  Variable strict : bool.

  (* In every reachable global state, for every node, member X and copy of X: every key, value,
     version and deletion status it holds is a write of X's owner with exactly that version; the
     copy's max version, GC watermark and recorded heartbeat never exceed the owner's. *)
  Theorem C03_integrity : forall g, reachable zc strict g ->
    forall a n X c, node_at g a = Some n -> nm_get X (cs_nodes (nd_cs n)) = Some c ->
      (forall k v, In (k, v) (c_kvs c) -> t_wrote (g_T g) X (entry_of k v)) /\
      c_max c <= t_max (g_T g) X /\ c_gc c <= t_max (g_T g) X /\ c_hb c <= t_hb (g_T g) X.
  Proof.
    intros g Hr a n X c Hn Hc.
    destruct (reachable_inv zc zc_len strict g Hr) as [Hg _].
    destruct (gi_nodes g Hg a n Hn) as [_ Hint _]. destruct (Hint X c Hc) as [A B C D]. auto.
  Qed.

  (* ... where the truth about X IS X's own current state: max version and heartbeat of the copy
     the owner holds of itself *)
  Theorem C03_truth_is_the_owners_state : forall g, reachable zc strict g ->
    forall a n, node_at g a = Some n ->
      exists c, nm_get (self_id n) (cs_nodes (nd_cs n)) = Some c /\
                c_max c = t_max (g_T g) (self_id n) /\ c_hb c = t_hb (g_T g) (self_id n).
  Proof.
    intros g Hr a n Hn. destruct (reachable_inv zc zc_len strict g Hr) as [Hg _].
    destruct (gi_nodes g Hg a n Hn) as [_ _ Hown]. exact Hown.
  Qed.

  (* ... writes carry distinct versions in 1..max: an entry's version identifies the write *)
  Theorem C03_versions_identify_writes : forall g, reachable zc strict g ->
    (forall X w, t_wrote (g_T g) X w -> 0 < lw_ver w /\ lw_ver w <= t_max (g_T g) X) /\
    (forall X w w', t_wrote (g_T g) X w -> t_wrote (g_T g) X w' -> lw_ver w = lw_ver w' -> w = w').
  Proof.
    intros g Hr. destruct (reachable_inv zc zc_len strict g Hr) as [Hg _]. destruct (gi_wf g Hg) as [A B]. auto.
  Qed.

  (* ... and nothing at all is known about an id that no node carries *)
  Theorem C03_no_invented_members : forall g, reachable zc strict g ->
    forall X, (forall a n, node_at g a = Some n -> self_id n <> X) ->
    forall a n c, node_at g a = Some n -> nm_get X (cs_nodes (nd_cs n)) = Some c ->
      c_kvs c = [] /\ c_max c = 0 /\ c_gc c = 0 /\ c_hb c = 0.
  Proof.
    intros g Hr X HX a n c Hn Hc. destruct (reachable_inv zc zc_len strict g Hr) as [Hg _].
    destruct (gi_support g Hg X HX) as (Hm & Hh & Hw).
    destruct (gi_nodes g Hg a n Hn) as [_ Hint _]. destruct (Hint X c Hc) as [A B C D].
    rewrite Hm in B, C. rewrite Hh in D. repeat split; try lia.
    destruct (c_kvs c) as [|[k v] r]; [reflexivity|]. exfalso. eapply Hw. apply (A k v). left; reflexivity.
  Qed.

  (* every message in flight has the same integrity (no cross-wiring between members or keys) *)
  Theorem C03_messages_carry_only_owner_writes : forall g, reachable zc strict g ->
    forall m, In m (g_sent g) -> msg_int (g_T g) m /\ msg_wf m.
  Proof. intros g Hr. destruct (reachable_inv zc zc_len strict g Hr) as [Hg _]. apply (gi_sent g Hg). Qed.
End C03.
Print Assumptions C03_integrity.
Print Assumptions C03_truth_is_the_owners_state.
Print Assumptions C03_versions_identify_writes.
Print Assumptions C03_no_invented_members.
Print Assumptions C03_messages_carry_only_owner_writes.

(* the boolean monitor evaluated on the implementation's copies (c03_ok, ledger = the owner's own
   API calls) is the statement: every entry is a write of the owner with that key, value, version
   and status, and the copy is not ahead of the owner *)
Theorem C03_monitor_is_the_statement : forall L c,
  c03_ok L c = true <->
  (forall k v, In (k, v) (c_kvs c) -> In (entry_of k v) L) /\ c_max c <= ledger_max L.
Proof. exact c03_ok_iff. Qed.
Print Assumptions C03_monitor_is_the_statement.
