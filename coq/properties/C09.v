(* C09 — Malformed or hostile datagrams cannot crash a node.
   The model's decoder returns an [option]: it has no abort outcome at all (every slice of the Rust
   decoder is guarded, which the correspondence suites check with catch_unwind on malformed
   streams); what is proved here is what makes PROCESSING total. *)
From Coq Require Import Lia.
From ChitchatModel Require Import Base SMap Ids Bytes Params NodeState Stream DeltaWire Message Cluster
  FD Chitchat SMap_lemmas NodeState_lemmas Builder_lemmas Stream_lemmas Cluster_lemmas Chitchat_lemmas
  Agreement Inv DeltaRefine Compute_lemmas NodeInv GuardsGen GuardTie.

(* whatever the bytes and whatever the decompressor answers, a message that decodes carries only
   grammar-valid deltas: ascending key-value versions, max_version not below them *)
Theorem C09_decoded_messages_are_grammar_valid : forall zd buf m rest,
  decode zd buf = Some (m, rest) -> msg_wf m.
Proof.
  intros zd buf m rest. unfold decode.
  destruct (get_u16 buf) as [[magic r]|]; [|discriminate].
  destruct (negb (magic =? P_MAGIC)); [discriminate|].
  destruct (get_u8 r) as [[ver r1]|]; [|discriminate].
  destruct (negb (ver =? P_PROTOCOL_VERSION)); [discriminate|].
  destruct (get_u8 r1) as [[tag r2]|]; [|discriminate].
  destruct (tag =? P_TAG_SYN).
  { destruct (get_digest r2) as [[d r3]|]; [|discriminate].
    destruct (get_str r3) as [[c r4]|]; [|discriminate]. intros [= <- _]. exact I. }
  destruct (tag =? P_TAG_SYNACK).
  { destruct (get_digest r2) as [[d r3]|]; [|discriminate].
    destruct (get_delta zd r3) as [[x r4]|] eqn:E; [|discriminate]. intros [= <- _].
    cbn. eapply get_delta_wf; eauto. }
  destruct (tag =? P_TAG_ACK).
  { destruct (get_delta zd r2) as [[x r3]|] eqn:E; [|discriminate]. intros [= <- _].
    cbn. eapply get_delta_wf; eauto. }
  destruct (tag =? P_TAG_BADCLUSTER); [|discriminate]. intros [= <- _]. exact I.
Qed.
Print Assumptions C09_decoded_messages_are_grammar_valid.

(* Processing any such message on any well-formed node never aborts (none of the assertions at
   state.rs:236,602, delta.rs:438,462, serialize.rs:327,344, nor the subtraction at lib.rs:138 can
   fire), re-establishes the invariant, and leaves a reply within the datagram budget — for every
   compressor behaviour and shuffle outcome.  Premise kept from the property: for a same-cluster
   SYN, the members the node knows still fit a digest that leaves 100 bytes in one datagram. *)
Theorem C09_processing_is_total :
  forall (zc : bytes -> option bytes), (forall b c, zc b = Some c -> len c <= len b) ->
  forall now n m ord,
    node_inv n -> msg_wf m ->
    (forall c dg, m = Syn c dg -> c = cf_cluster (nd_cfg n) ->
                  synack_used now n dg + P_MIN_MTU <= P_MAX_UDP) ->
    process_message zc now n m ord <> Panic /\
    forall n' reply evs, process_message zc now n m ord = Ok (n', reply, evs) -> node_inv n'.
Proof.
  intros zc zc_len now n m ord Hinv Hwf Hroom.
  destruct (process_message_total zc zc_len now n m ord Hinv Hwf Hroom) as [He|(n2 & r2 & e2 & Hr & Hi & _)].
  - rewrite He. split; [discriminate|]. intros; discriminate.
  - rewrite Hr. split; [discriminate|]. intros n' reply evs [= <- _ _]. exact Hi.
Qed.
Print Assumptions C09_processing_is_total.

(* frontier monotonicity is kept by hostile input as well: C04_cluster_apply_monotone holds for
   every grammar-valid delta; restated here for a whole message *)
Theorem C09_frontiers_survive_hostile_deltas : forall now n x,
  delta_wf x ->
  exists n' evs, process_delta now n x = Ok (n', evs) /\
    (forall i c, nm_get i (cs_nodes (nd_cs n)) = Some c ->
       exists c', nm_get i (cs_nodes (nd_cs n')) = Some c' /\
                  lex_le_p (monotonic_property c) (monotonic_property c')) /\
    nd_fd n' = nd_fd n.
Proof.
  intros now n x Hwf.
  assert (Hb : Forall nd_bounded (nds x)) by (eapply Forall_impl; [apply nd_wf_bounded|exact Hwf]).
  destruct (process_delta_spec now n x Hb) as (n' & evs & H & _ & Hfd & _ & _ & _ & _ & _ & Hsome & _).
  exists n', evs. split; [exact H|]. split; [|exact Hfd].
  intros i c Hc. destruct (Hsome i c Hc) as (c' & H1 & _ & H2). eauto.
Qed.
Print Assumptions C09_frontiers_survive_hostile_deltas.

(* the invariant holds of every freshly created node and is kept by every node operation *)
Theorem C09_node_invariant_is_inductive :
  (forall cfg initial, node_inv (new_node cfg initial)) /\
  (forall n, node_inv n -> node_inv (update_self_heartbeat n)) /\
  (forall now n, node_inv n -> node_inv (gc_keys now n)) /\
  (forall now n oracle, node_inv n -> node_inv (update_nodes_liveness now n oracle)).
Proof.
  split; [exact new_node_inv|]. split; [exact update_self_heartbeat_inv|].
  split; [exact gc_keys_inv|exact update_nodes_liveness_inv].
Qed.
Print Assumptions C09_node_invariant_is_inductive.

(* ---- the tie of the decision guards to the sources (GuardTie.v; see C14.v for the scheme) ---- *)
(* which key-values of a (possibly hostile) delta are skipped before set_versioned_value *)
Theorem C09_delta_filter_guards_are_the_source_guards :
  ((forall ver cmax cgc, rs_apply_known ver cmax cgc = g_apply_known ver cmax) \/
   (forall ver cmax cgc, rs_apply_known ver cmax cgc = negb (g_apply_known ver cmax))) /\
  ((forall ver cmax cgc, rs_apply_collected ver cmax cgc = g_apply_collected ver cgc) \/
   (forall ver cmax cgc, rs_apply_collected ver cmax cgc = negb (g_apply_collected ver cgc))).
Proof. exact (conj tie_apply_known tie_apply_collected). Qed.
Print Assumptions C09_delta_filter_guards_are_the_source_guards.
