(* C13 — The live-members watch channel reflects the evaluated membership.
   [nd_watch] is the value held by the channel, [nd_prev] what the node recorded at its last
   publication, [nd_sends] the number of publications. *)
From ChitchatModel Require Import Base SMap Ids Bytes Params NodeState Stream DeltaWire Message
  Cluster FD Chitchat SMap_lemmas Cluster_lemmas Chitchat_lemmas
  World Truth NodeTruth Weak Reach ReachFD.

(* After every evaluation: what is recorded is exactly {live member (self included) that has a
   copy -> (its current max version, the extra predicate's verdict on it)} ... *)
Theorem C13_recorded_is_evaluated_membership : forall now n oracle,
  exists f1, live_nodes (update_nodes_liveness now n oracle) = self_id n :: fd_live_nodes f1 /\
    forall i, pm_get i (nd_prev (update_nodes_liveness now n oracle))
      = match nm_get i (cs_nodes (nd_cs n)) with
        | Some c => if in_ids i (self_id n :: fd_live_nodes f1)
                    then Some (c_max c, eval_pred (cf_pred (nd_cfg n)) c) else None
        | None => None
        end.
Proof. exact update_nodes_liveness_live. Qed.
Print Assumptions C13_recorded_is_evaluated_membership.

(* ... and the channel lists exactly the recorded members whose verdict is true, each with a
   snapshot carrying the recorded (= current) max version.  [watch_shape] holds initially and is
   preserved by every evaluation (no other operation touches nd_prev / nd_watch). *)
Theorem C13_watch_exact : forall now n oracle,
  watch_shape (nd_prev n) (nd_watch n) ->
  let n' := update_nodes_liveness now n oracle in
  watch_shape (nd_prev n') (nd_watch n') /\
  (forall i v p, In (i, (v, p)) (nd_prev n') ->
     exists c, nm_get i (cs_nodes (nd_cs n)) = Some c /\ c_max c = v /\ p = eval_pred (cf_pred (nd_cfg n)) c).
Proof. exact update_nodes_liveness_watch. Qed.
Print Assumptions C13_watch_exact.

Theorem C13_watch_shape_initially : forall cfg initial,
  watch_shape (nd_prev (new_node cfg initial)) (nd_watch (new_node cfg initial)).
Proof. intros. reflexivity. Qed.
Print Assumptions C13_watch_shape_initially.

(* a new value is published exactly when the recorded membership / versions / verdicts changed *)
Theorem C13_publishes_iff_changed : forall now n oracle,
  let n' := update_nodes_liveness now n oracle in
  (nd_prev n' <> nd_prev n -> nd_sends n' = nd_sends n + 1) /\
  (nd_prev n' = nd_prev n -> nd_sends n' = nd_sends n /\ nd_watch n' = nd_watch n).
Proof.
  intros now n oracle. unfold update_nodes_liveness. cbv zeta.
  match goal with |- context [pmap_eqb (nd_prev n) ?c] => set (cur := c) end.
  destruct (fd_garbage_collect _ _ _) as [f2 collected]. cbn [nd_prev nd_sends nd_watch].
  destruct (pmap_eqb (nd_prev n) cur) eqn:E; cbn [negb].
  - split; [congruence|auto].
  - split; [reflexivity|]. intros H. rewrite H in E.
    assert (pmap_eqb (nd_prev n) (nd_prev n) = true).
    { clear. induction (nd_prev n) as [|[i [v p]] r IH]; cbn; [reflexivity|].
      unfold pentry_eqb. cbn. rewrite id_eqb_refl, N.eqb_refl, Bool.eqb_reflx, IH. reflexivity. }
    congruence.
Qed.
Print Assumptions C13_publishes_iff_changed.

(* over schedules: the premise of C13_watch_exact — the channel value lists exactly the recorded
   members with a true verdict, with their recorded max versions — holds on every node in every
   reachable state (only a liveness evaluation touches the channel and its record) *)
Theorem C13_always_watch_shape : forall zc strict g, reachable zc strict g ->
  forall a n, node_at g a = Some n -> watch_shape (nd_prev n) (nd_watch n).
Proof. exact reachable_watch_shape. Qed.
Print Assumptions C13_always_watch_shape.
