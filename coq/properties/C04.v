(* C04 — Versions and replication frontiers only move forward. *)
From Coq Require Import Lia.
From ChitchatModel Require Import Base SMap Ids Bytes Params NodeState Stream DeltaWire Message
  Cluster FD Chitchat World SMap_lemmas NodeState_lemmas Builder_lemmas Cluster_lemmas Chitchat_lemmas Inv
  Truth NodeInv NodeTruth Weak Reach Progress Potential ReachMono Monitors KeyMono GuardsGen GuardTie.

(* For EVERY copy and EVERY node delta whose key-value versions do not exceed its max_version
   (all that the decoder's grammar lets through: C04_decoder_output_bounded), honest or not:
   applying it never aborts (assert state.rs:236 unreachable); (watermark, max) does not decrease,
   and strictly increases unless the delta is refused; stored key versions only grow on an
   incremental application; a reset strictly raises the watermark. *)
Theorem C04_apply_delta_frontier : forall now c d, nd_bounded d ->
  exists c' st evs, apply_delta now c d = Ok (c', st, evs) /\
    st = check_delta_status c d /\
    lex_le_p (monotonic_property c) (monotonic_property c') /\
    (st = Reject -> c' = c /\ evs = []) /\
    (st = Apply -> c_gc c' = c_gc c /\ c_max c < c_max c' /\ c_max c' = d_max d /\ c_hb c' = c_hb c /\
                   forall k o, kget k (c_kvs c) = Some o ->
                     exists o', kget k (c_kvs c') = Some o' /\ v_ver o <= v_ver o') /\
    (st = ApplyAfterReset -> c_gc c < c_gc c' /\ c_gc c' = d_gc d /\ c_max c' = d_max d /\ c_hb c' = c_hb c).
Proof. exact apply_delta_frontier. Qed.
Print Assumptions C04_apply_delta_frontier.

(* whatever bytes arrive, a decoded delta satisfies the premise above *)
Theorem C04_decoder_output_bounded : forall zd buf x rest,
  get_delta zd buf = Some (x, rest) -> Forall nd_bounded (nds x).
Proof.
  intros zd buf x rest H. apply get_delta_wf in H.
  eapply Forall_impl; [|exact H]. apply nd_wf_bounded.
Qed.
Print Assumptions C04_decoder_output_bounded.

(* a whole delta on a whole cluster state: no abort (assert state.rs:602 unreachable), no member
   created or removed, every copy's frontier moves forward *)
Theorem C04_cluster_apply_monotone : forall now cs x,
  Forall nd_bounded (nds x) ->
  exists cs' reset evs,
    cluster_apply_delta now cs x = Ok (cs', reset, evs) /\
    (forall i, nm_get i (cs_nodes cs) = None -> nm_get i (cs_nodes cs') = None) /\
    (forall i c, nm_get i (cs_nodes cs) = Some c ->
       exists c', nm_get i (cs_nodes cs') = Some c' /\
                  lex_le_p (monotonic_property c) (monotonic_property c')).
Proof.
  intros now cs x Hb.
  destruct (cluster_apply_delta_spec now cs x Hb) as (cs' & reset & evs & H1 & _ & H2 & H3 & _).
  exists cs', reset, evs. split; [exact H1|]. split; [exact H2|].
  intros i c Hc. destruct (H3 i c Hc) as (c' & Ha & _ & Hb'). eauto.
Qed.
Print Assumptions C04_cluster_apply_monotone.

(* Every effective local write gets version max+1; re-setting a key to its current value changes
   nothing.  [copy_inv] (stored versions are at most max_version, ...) holds of every reachable
   copy: Inv.v proves it is preserved by every operation. *)
Theorem C04_set_fresh_version : forall c k v, copy_inv c ->
  let c' := fst (set c k v) in
  (c' = c /\ snd (set c k v) = [] /\
   exists p, kget k (c_kvs c) = Some p /\ v_val p = v /\ v_st p = SSet)
  \/
  (c_max c' = c_max c + 1 /\ c_gc c' = c_gc c /\ c_hb c' = c_hb c /\
   kget k (c_kvs c') = Some (mkVV v (c_max c + 1) SSet) /\
   forall k', k' <> k -> kget k' (c_kvs c') = kget k' (c_kvs c)).
Proof.
  intros c k v Hinv. cbn zeta. unfold set, get_versioned.
  destruct (kget k (c_kvs c)) as [p|] eqn:Hk.
  - destruct (bytes_eqb (v_val p) v && match v_st p with SSet => true | _ => false end) eqn:Hu.
    + left. apply andb_true_iff in Hu as [H1 H2]. apply bytes_eqb_eq in H1.
      split; [reflexivity|]. split; [reflexivity|]. exists p. split; [reflexivity|]. split; [exact H1|].
      destruct (v_st p); try discriminate. reflexivity.
    + right. unfold set_versioned_value. cbn [v_ver]. rewrite Hk.
      assert (Hle : c_max c + 1 <=? v_ver p = false).
      { apply N.leb_gt. destruct (ci_range c Hinv k p (kget_in _ _ _ Hk)). lia. }
      rewrite Hle. cbn [fst c_max c_gc c_hb c_kvs].
      replace (N.max (c_max c + 1) (c_max c)) with (c_max c + 1) by lia.
      repeat split; auto; [apply kget_kinsert_same|].
      intros k' Hne. apply kget_kinsert_other. congruence.
  - right. unfold set_versioned_value. cbn [v_ver]. rewrite Hk. cbn [fst c_max c_gc c_hb c_kvs].
    replace (N.max (c_max c + 1) (c_max c)) with (c_max c + 1) by lia.
    repeat split; auto; [apply kget_kinsert_same|].
    intros k' Hne. apply kget_kinsert_other. congruence.
Qed.
Print Assumptions C04_set_fresh_version.

Theorem C04_delete_fresh_version : forall now c k,
  let c' := delete now c k in
  (kget k (c_kvs c) = None /\ c' = c) \/
  (c_max c' = c_max c + 1 /\ c_gc c' = c_gc c /\
   kget k (c_kvs c') = Some (mkVV [] (c_max c + 1) (SDel now)) /\
   forall k', k' <> k -> kget k' (c_kvs c') = kget k' (c_kvs c)).
Proof.
  intros now c k. cbn zeta. unfold delete. destruct (kget k (c_kvs c)) as [p|] eqn:Hk.
  - right. cbn [c_max c_gc c_kvs]. repeat split; auto; [apply kget_kinsert_same|].
    intros k' Hne. apply kget_kinsert_other. congruence.
  - left. auto.
Qed.
Print Assumptions C04_delete_fresh_version.

(* the well-formedness used above is an invariant of every operation on a copy *)
Theorem C04_copy_inv_preserved :
  copy_inv new_copy /\
  (forall c k v, copy_inv c -> copy_inv (fst (set c k v))) /\
  (forall now c k v, copy_inv c -> copy_inv (fst (set_with_ttl now c k v))) /\
  (forall now c k, copy_inv c -> copy_inv (delete now c k)) /\
  (forall now c k, copy_inv c -> copy_inv (delete_after_ttl now c k)) /\
  (forall now grace c, copy_inv c -> copy_inv (gc_keys_marked_for_deletion now grace c)) /\
  (forall now c d c' st evs, copy_inv c -> nd_wf d -> apply_delta now c d = Ok (c', st, evs) -> copy_inv c').
Proof.
  split; [exact new_copy_inv|]. split; [exact set_inv|]. split; [exact set_with_ttl_inv|].
  split; [exact delete_inv|]. split; [exact delete_after_ttl_inv|]. split; [exact gc_inv|exact apply_delta_inv].
Qed.
Print Assumptions C04_copy_inv_preserved.

Example C04_nonvacuous :
  let c := mkCopy 1 2 5 [([x61], mkVV [x31] 3 SSet)] in
  copy_inv c /\ nd_bounded (mkND (mkId [x78] 0 (V4 1 1)) 5 2 [mkKvm [x61] [x32] 7 MSet] 7).
Proof.
  split.
  - split; cbn.
    + auto.
    + intros k1 v1 k2 v2 [E1|[]] [E2|[]]. congruence.
    + intros k v [E|[]]. injection E as <- <-. cbn. lia.
  - intros m [<-|[]]. cbn. lia.
Qed.

(* Over every step of the global relation (C02's step relation: any node's local writes, GC,
   heartbeats, clock, liveness evaluation, joins, SYN creation, delivery of any message ever sent to
   any node — duplicated, stale, concurrent), from every reachable state, with or without the
   KF-1 exclusion: every copy of every node is still there afterwards with a lexicographically
   larger-or-equal (GC watermark, max version); the only step that can make a copy disappear is a
   liveness evaluation removing the member. *)
Theorem C04_frontiers_monotone_along_steps : forall zc,
  (forall b c, zc b = Some c -> len c <= len b) -> forall strict g g',
  reachable zc strict g -> gstep zc strict g g' ->
  forall a n, node_at g a = Some n ->
    exists n', node_at g' a = Some n' /\ kept_or_removed n n' /\
      ((forall b nb oracle, g' <> mkG (with_nodes (g_w g) (set_nth (w_nodes (g_w g)) b (update_nodes_liveness (w_now (g_w g)) nb oracle))) (g_sent g) (g_T g)) ->
       node_le n n').
Proof. exact frontiers_monotone_along_steps. Qed.
Print Assumptions C04_frontiers_monotone_along_steps.

(* ... and the second half of the same sentence, "a key's stored version never decreases except
   when the whole copy is wiped by a reset that strictly raises the watermark": along every step
   from every reachable state, every copy that is kept (a) has a larger-or-equal frontier and (b)
   either its watermark strictly rose, or every key it held is still there with a version at least
   as large, or the key was a deleted / TTL-marked entry collected at or below the new watermark
   (tombstone GC, the one removal the implementation performs without wiping the copy). *)
Theorem C04_key_versions_monotone_along_steps : forall zc,
  (forall b c, zc b = Some c -> len c <= len b) -> forall strict g g',
  reachable zc strict g -> gstep zc strict g g' ->
  forall a n, node_at g a = Some n ->
    exists n', node_at g' a = Some n' /\
      forall X c, nm_get X (cs_nodes (nd_cs n)) = Some c ->
        nm_get X (cs_nodes (nd_cs n')) = None \/
        exists c', nm_get X (cs_nodes (nd_cs n')) = Some c' /\ frontier_le c c' /\
          (c_gc c < c_gc c' \/
           forall k o, kget k (c_kvs c) = Some o ->
             (exists o', kget k (c_kvs c') = Some o' /\ v_ver o <= v_ver o') \/
             (kget k (c_kvs c') = None /\ mscheduled (to_mstatus (v_st o)) = true /\ v_ver o <= c_gc c')).
Proof. exact key_versions_monotone_along_steps. Qed.
Print Assumptions C04_key_versions_monotone_along_steps.

(* message processing alone (no GC pass) never removes a key: watermark strictly up, or equal with
   every key kept at a version at least as large — for every grammar-valid message, honest or not *)
Theorem C04_process_message_key_versions : forall zc now n m ord n' reply evs,
  msg_wf m -> process_message zc now n m ord = Ok (n', reply, evs) ->
  forall X c, nm_get X (cs_nodes (nd_cs n)) = Some c ->
    exists c', nm_get X (cs_nodes (nd_cs n')) = Some c' /\
      (c_gc c < c_gc c' \/ (c_gc c = c_gc c' /\
        forall k o, kget k (c_kvs c) = Some o -> exists o', kget k (c_kvs c') = Some o' /\ v_ver o <= v_ver o')).
Proof. intros zc now n m ord n' reply evs Hwf Hrun. exact (process_message_fwd zc now n m ord n' reply evs Hwf Hrun). Qed.
Print Assumptions C04_process_message_key_versions.

(* the C04 monitor evaluated on the implementation's dumps is implied by the theorem: the model
   passes it on every step of every reachable state, so a failure is a genuine difference *)
Theorem C04_every_step_passes_the_monitor : forall zc,
  (forall b c, zc b = Some c -> len c <= len b) -> forall strict g g',
  reachable zc strict g -> gstep zc strict g g' ->
  forall a n, node_at g a = Some n -> exists n', node_at g' a = Some n' /\
    Monitors.c04_nodes_ok (cs_nodes (nd_cs n)) (cs_nodes (nd_cs n')) = true.
Proof. exact steps_pass_c04_monitor. Qed.
Print Assumptions C04_every_step_passes_the_monitor.

(* ---- the tie of the decision guards to the sources (GuardTie.v; see C14.v for the scheme):
   the model function is the decision tree over the model's guards g_x, and each g_x cuts its
   operands' space along the same boundary as rs_x, the translation of today's Rust expression
   (regenerated on every run by tools/guards.py).  A source change that moves a boundary breaks
   this theorem on the next run. ---- *)
Theorem C04_admission_guards_are_the_source_guards :
  (forall c d, check_delta_status c d =
     if g_cds_future (d_from d) (c_max c) then Reject
     else if negb (g_cds_compat (d_gc d) (c_gc c) (c_max c))
          then (if g_cds_from_nonzero (d_from d) then Reject else ApplyAfterReset)
          else if g_cds_newer (c_max c) (d_max d) then Apply else Reject) /\
  ((forall dgc cgc cmax dmax dfrom, rs_cds_future dgc cgc cmax dmax dfrom = g_cds_future dfrom cmax) \/
   (forall dgc cgc cmax dmax dfrom, rs_cds_future dgc cgc cmax dmax dfrom = negb (g_cds_future dfrom cmax))) /\
  ((forall dgc cgc cmax dmax dfrom, rs_cds_compat dgc cgc cmax dmax dfrom = g_cds_compat dgc cgc cmax) \/
   (forall dgc cgc cmax dmax dfrom, rs_cds_compat dgc cgc cmax dmax dfrom = negb (g_cds_compat dgc cgc cmax))) /\
  ((forall dgc cgc cmax dmax dfrom, rs_cds_from_nonzero dgc cgc cmax dmax dfrom = g_cds_from_nonzero dfrom) \/
   (forall dgc cgc cmax dmax dfrom, rs_cds_from_nonzero dgc cgc cmax dmax dfrom = negb (g_cds_from_nonzero dfrom))) /\
  ((forall dgc cgc cmax dmax dfrom, rs_cds_newer dgc cgc cmax dmax dfrom = g_cds_newer cmax dmax) \/
   (forall dgc cgc cmax dmax dfrom, rs_cds_newer dgc cgc cmax dmax dfrom = negb (g_cds_newer cmax dmax))).
Proof.
  exact (conj check_delta_status_is_the_tree (conj tie_cds_future (conj tie_cds_compat (conj tie_cds_from_nonzero tie_cds_newer)))).
Qed.
Print Assumptions C04_admission_guards_are_the_source_guards.

Theorem C04_write_guards_are_the_source_guards :
  (forall c k v, set_versioned_value c k v =
     let mx := g_svv_max (v_ver v) (c_max c) in
     let ev := if is_deleted v then [] else [(k, v_val v)] in
     match kget k (c_kvs c) with
     | Some old =>
         if g_svv_older (v_ver old) (v_ver v)
         then (mkCopy (c_hb c) (c_gc c) mx (c_kvs c), [])
         else (mkCopy (c_hb c) (c_gc c) mx (kinsert k v (c_kvs c)), ev)
     | None => (mkCopy (c_hb c) (c_gc c) mx (kinsert k v (c_kvs c)), ev)
     end) /\
  (forall now current_max acc m, apply_kv now current_max acc m =
     let '(c, evs) := acc in
     if g_apply_known (m_ver m) current_max then acc
     else if mscheduled (m_st m) && g_apply_collected (m_ver m) (c_gc c) then acc
     else
       let '(c', ev) := set_versioned_value c (m_key m) (mkVV (m_val m) (m_ver m) (into_status (m_st m) now)) in
       (c', evs ++ ev)) /\
  (forall ver cmax, rs_svv_max ver cmax = g_svv_max ver cmax) /\
  ((forall old ver, rs_svv_older old ver = g_svv_older old ver) \/ (forall old ver, rs_svv_older old ver = negb (g_svv_older old ver))) /\
  ((forall ver cmax cgc, rs_apply_known ver cmax cgc = g_apply_known ver cmax) \/
   (forall ver cmax cgc, rs_apply_known ver cmax cgc = negb (g_apply_known ver cmax))) /\
  ((forall ver cmax cgc, rs_apply_collected ver cmax cgc = g_apply_collected ver cgc) \/
   (forall ver cmax cgc, rs_apply_collected ver cmax cgc = negb (g_apply_collected ver cgc))).
Proof.
  exact (conj set_versioned_value_is_the_tree (conj apply_kv_is_the_tree (conj tie_svv_max (conj tie_svv_older
          (conj tie_apply_known tie_apply_collected))))).
Qed.
Print Assumptions C04_write_guards_are_the_source_guards.
