//! A set of real `Chitchat` instances driven one protocol step at a time under tokio's paused
//! clock; every step appends the operation and what the implementation let us observe to a
//! trace that the extracted Coq model replays (extract/driver.ml).

use std::collections::{BTreeSet, HashSet};
use std::fmt::Write as _;
use std::net::{IpAddr, Ipv4Addr, Ipv6Addr, SocketAddr};
use std::panic::{catch_unwind, AssertUnwindSafe};
use std::sync::atomic::{AtomicUsize, Ordering};
use std::sync::{Arc, Mutex};
use std::time::Duration;

use chitchat::verif::{verif_dump_id, verif_dump_message};
use chitchat::{
    Chitchat, ChitchatConfig, ChitchatId, ChitchatMessage, DeletionStatus, Deserializable,
    FailureDetectorConfig, ListenerHandle, NodeState, Serializable, VersionedValue,
};
use tokio::sync::watch;
use tokio::time::Instant;

use crate::util::{hex, hexv, zc_table};

#[derive(Clone, Debug)]
pub enum Pred {
    None,
    HasEntry(String),
    Visible(String),
    ValEq(String, String),
    MaxEven,
}

#[derive(Clone, Debug)]
pub struct NodeSpec {
    pub id: ChitchatId,
    pub cluster: String,
    pub phi_num: i64,
    pub phi_den: i64,
    pub window: usize,
    pub max_interval_ns: u64,
    pub initial_interval_ns: u64,
    pub dead_grace_ns: u64,
    pub kv_grace_ns: u64,
    pub pred: Pred,
    pub has_cb: bool,
    pub initial: Vec<(String, String)>,
}

impl NodeSpec {
    pub fn simple(id: ChitchatId) -> NodeSpec {
        NodeSpec {
            id,
            cluster: "c".to_string(),
            phi_num: 8,
            phi_den: 1,
            window: 1000,
            max_interval_ns: 10_000_000_000,
            initial_interval_ns: 5_000_000_000,
            dead_grace_ns: 3_600_000_000_000,
            kv_grace_ns: 1_000_000_000,
            pred: Pred::None,
            has_cb: true,
            initial: Vec::new(),
        }
    }
}

pub fn mk_id(name: &str, generation: u64, port: u16) -> ChitchatId {
    ChitchatId::new(
        name.to_string(),
        generation,
        SocketAddr::new(IpAddr::V4(Ipv4Addr::new(10, 0, 0, 1)), port),
    )
}

pub fn mk_id6(name: &str, generation: u64, port: u16) -> ChitchatId {
    // alternate between a global address and an IPv4-mapped one (::ffff:10.0.0.1)
    let ip = if port % 2 == 0 {
        Ipv6Addr::new(0x2001, 0xdb8, 0, 0, 0, 0, 0, 1)
    } else {
        Ipv6Addr::new(0, 0, 0, 0, 0, 0xffff, 0x0a00, 0x0001)
    };
    ChitchatId::new(name.to_string(), generation, SocketAddr::new(IpAddr::V6(ip), port))
}

pub struct SimNode {
    pub chitchat: Chitchat,
    pub spec: NodeSpec,
    events: Arc<Mutex<Vec<(String, String, String)>>>,
    cb_count: Arc<AtomicUsize>,
    watcher: watch::Receiver<std::collections::BTreeMap<ChitchatId, NodeState>>,
    sends: u64,
    _listener: Option<ListenerHandle>,
    /// explicit subscriptions of the listen suite: (listener id, prefix, handle while droppable)
    pub subs: Vec<(u64, String, Option<ListenerHandle>)>,
    pub calls: Arc<Mutex<Vec<String>>>,
    _seeds_tx: watch::Sender<HashSet<SocketAddr>>,
}

pub struct Sim {
    pub nodes: Vec<SimNode>,
    pub t0: Instant,
    pub trace: String,
    pub known_ids: BTreeSet<ChitchatId>,
    pub dead_case: bool,
    pub ops_in_case: usize,
    /// record the full listener event log (prefix "" subscription on every node)
    pub subscribe_all: bool,
}

pub fn silent_panics() {
    // panics of the implementation are caught and recorded as observations; their default report on
    // stderr is only noise — unless the harness itself is being debugged
    if std::env::var_os("VERIF_LOUD_PANICS").is_none() {
        std::panic::set_hook(Box::new(|_| {}));
    }
}

fn status_tokens(status: &DeletionStatus, t0: Instant) -> String {
    match status {
        DeletionStatus::Set => "0 -".to_string(),
        DeletionStatus::Deleted(t) => format!("1 {}", t.duration_since(t0).as_nanos()),
        DeletionStatus::DeleteAfterTtl(t) => format!("2 {}", t.duration_since(t0).as_nanos()),
    }
}

fn dump_copy(out: &mut String, id: &ChitchatId, ns: &NodeState, t0: Instant) {
    let kvs: Vec<(&str, &VersionedValue)> = ns.key_values_including_deleted().collect();
    let _ = write!(
        out,
        " {} {} {} {} {}",
        verif_dump_id(id),
        u64::from(ns.heartbeat()),
        ns.last_gc_version(),
        ns.max_version(),
        kvs.len()
    );
    for (k, v) in kvs {
        let _ = write!(
            out,
            " {} {} {} {}",
            hex(k.as_bytes()),
            hexv(v.value.as_bytes()),
            v.version,
            status_tokens(&v.status, t0)
        );
    }
}

fn dump_idlist<'a>(out: &mut String, name: &str, ids: impl Iterator<Item = &'a ChitchatId>) {
    let sorted: BTreeSet<&ChitchatId> = ids.collect();
    let _ = write!(out, " {} {}", name, sorted.len());
    for id in sorted {
        let _ = write!(out, " {}", verif_dump_id(id));
    }
}

impl Sim {
    pub fn new() -> Sim {
        Sim {
            nodes: Vec::new(),
            t0: Instant::now(),
            trace: String::new(),
            known_ids: BTreeSet::new(),
            dead_case: false,
            ops_in_case: 0,
            subscribe_all: true,
        }
    }

    /// No catch-all listener for this case (the model then reports no events either).
    pub fn no_events(&mut self) {
        self.subscribe_all = false;
        let _ = writeln!(self.trace, "OPT noevents");
    }

    pub fn now_ns(&self) -> u128 {
        Instant::now().duration_since(self.t0).as_nanos()
    }

    pub fn start_case(&mut self, name: &str) {
        self.nodes.clear();
        self.known_ids.clear();
        self.dead_case = false;
        self.ops_in_case = 0;
        self.subscribe_all = true;
        self.t0 = Instant::now();
        let _ = writeln!(self.trace, "CASE {name}");
    }

    fn note_ids(&mut self, n: usize) {
        let ids: Vec<ChitchatId> = self.nodes[n].chitchat.node_states().keys().cloned().collect();
        for id in ids {
            self.known_ids.insert(id);
        }
    }

    pub fn dump_node(&mut self, n: usize) -> String {
        self.note_ids(n);
        let t0 = self.t0;
        let node = &mut self.nodes[n];
        let mut out = String::new();
        let cc = &node.chitchat;
        let _ = write!(out, "nodes {}", cc.node_states().len());
        for (id, ns) in cc.node_states() {
            dump_copy(&mut out, id, ns, t0);
        }
        dump_idlist(&mut out, "live", cc.live_nodes());
        dump_idlist(&mut out, "dead", cc.dead_nodes());
        dump_idlist(&mut out, "sched", cc.scheduled_for_deletion_nodes());
        let mut gcn = Vec::new();
        for id in &self.known_ids {
            if let Some(hb) = cc.verif_last_heartbeat_if_deleted(id) {
                gcn.push((id.clone(), hb));
            }
        }
        let _ = write!(out, " gcn {}", gcn.len());
        for (id, hb) in gcn {
            let _ = write!(out, " {} {}", verif_dump_id(&id), hb);
        }
        if node.watcher.has_changed().unwrap_or(false) {
            node.sends += 1;
        }
        {
            let w = node.watcher.borrow_and_update();
            let _ = write!(out, " watch {}", w.len());
            for (id, ns) in w.iter() {
                let _ = write!(
                    out,
                    " {} {} {} {}",
                    verif_dump_id(id),
                    u64::from(ns.heartbeat()),
                    ns.max_version(),
                    ns.key_values_including_deleted().count()
                );
            }
        }
        let _ = write!(out, " sends {} cb {}", node.sends, node.cb_count.load(Ordering::SeqCst));
        out
    }

    fn take_events(&mut self, n: usize) -> String {
        let mut evs = self.nodes[n].events.lock().unwrap();
        let mut out = format!("ev {}", evs.len());
        for (id, k, v) in evs.iter() {
            let _ = write!(out, " {} {} {}", id, hex(k.as_bytes()), hexv(v.as_bytes()));
        }
        evs.clear();
        out
    }

    fn obs(&mut self, n: usize) -> String {
        let ev = self.take_events(n);
        let dump = self.dump_node(n);
        format!("{ev} | {dump}")
    }

    fn record(&mut self, op: &str, obs: &str) {
        self.ops_in_case += 1;
        let _ = writeln!(self.trace, "{op}");
        let _ = writeln!(self.trace, "= {obs}");
    }

    fn record_panic(&mut self, op: &str) {
        self.record(op, "PANIC");
        self.dead_case = true;
    }

    pub fn join(&mut self, spec: NodeSpec) -> usize {
        let fd = FailureDetectorConfig::new(
            spec.phi_num as f64 / spec.phi_den as f64,
            spec.window,
            Duration::from_nanos(spec.max_interval_ns),
            Duration::from_nanos(spec.initial_interval_ns),
            Duration::from_nanos(spec.dead_grace_ns),
        );
        let half = Duration::from_nanos(spec.dead_grace_ns).div_f32(2.0f32).as_nanos();
        let cb_count = Arc::new(AtomicUsize::new(0));
        let cb_clone = cb_count.clone();
        let pred = spec.pred.clone();
        let config = ChitchatConfig {
            chitchat_id: spec.id.clone(),
            cluster_id: spec.cluster.clone(),
            gossip_interval: Duration::from_millis(100),
            listen_addr: spec.id.gossip_advertise_addr,
            seed_nodes: Vec::new(),
            failure_detector_config: fd,
            marked_for_deletion_grace_period: Duration::from_nanos(spec.kv_grace_ns),
            catchup_callback: if spec.has_cb {
                Some(Box::new(move || {
                    cb_clone.fetch_add(1, Ordering::SeqCst);
                }))
            } else {
                None
            },
            extra_liveness_predicate: match pred {
                Pred::None => None,
                Pred::HasEntry(k) => Some(Box::new(move |ns: &NodeState| ns.get_versioned(&k).is_some())),
                Pred::Visible(k) => Some(Box::new(move |ns: &NodeState| ns.contains_key(&k))),
                Pred::ValEq(k, v) => Some(Box::new(move |ns: &NodeState| ns.get(&k) == Some(v.as_str()))),
                Pred::MaxEven => Some(Box::new(|ns: &NodeState| ns.max_version() % 2 == 0)),
            },
        };
        let (seeds_tx, seeds_rx) = watch::channel(HashSet::new());
        let pred_txt = match &spec.pred {
            Pred::None => "none".to_string(),
            Pred::HasEntry(k) => format!("hasentry {}", hex(k.as_bytes())),
            Pred::Visible(k) => format!("visible {}", hex(k.as_bytes())),
            Pred::ValEq(k, v) => format!("valeq {} {}", hex(k.as_bytes()), hex(v.as_bytes())),
            Pred::MaxEven => "maxeven".to_string(),
        };
        let mut op = format!(
            "JOIN {} {} {} {} {} {} {} {} {} {} {} {} {}",
            verif_dump_id(&spec.id),
            hex(spec.cluster.as_bytes()),
            spec.phi_num,
            spec.phi_den,
            spec.window,
            spec.max_interval_ns,
            spec.initial_interval_ns,
            spec.dead_grace_ns,
            half,
            spec.kv_grace_ns,
            pred_txt,
            spec.has_cb as u8,
            spec.initial.len()
        );
        for (k, v) in &spec.initial {
            let _ = write!(op, " {} {}", hex(k.as_bytes()), hex(v.as_bytes()));
        }
        let initial = spec.initial.clone();
        let res = catch_unwind(AssertUnwindSafe(|| {
            Chitchat::with_chitchat_id_and_seeds(config, seeds_rx, initial)
        }));
        let chitchat = match res {
            Ok(c) => c,
            Err(_) => {
                self.record_panic(&op);
                return usize::MAX;
            }
        };
        let events: Arc<Mutex<Vec<(String, String, String)>>> = Arc::new(Mutex::new(Vec::new()));
        let listener = if self.subscribe_all {
            let ev = events.clone();
            Some(chitchat.subscribe_event("", move |e| {
                ev.lock().unwrap().push((verif_dump_id(e.node), e.key.to_string(), e.value.to_string()));
            }))
        } else {
            None
        };
        let watcher = chitchat.live_nodes_watcher();
        self.nodes.push(SimNode {
            chitchat,
            spec,
            events,
            cb_count,
            watcher,
            sends: 0,
            subs: Vec::new(),
            calls: Arc::new(Mutex::new(Vec::new())),
            _listener: listener,
            _seeds_tx: seeds_tx,
        });
        let n = self.nodes.len() - 1;
        // the initial key-values were set before the listener existed: no events
        let obs = self.obs(n);
        self.record(&op, &obs);
        n
    }

    fn local<F: FnOnce(&mut Chitchat)>(&mut self, n: usize, op: String, f: F) {
        if self.dead_case {
            return;
        }
        let cc = &mut self.nodes[n].chitchat;
        let res = catch_unwind(AssertUnwindSafe(|| f(cc)));
        match res {
            Ok(()) => {
                let obs = self.obs(n);
                self.record(&op, &obs);
            }
            Err(_) => self.record_panic(&op),
        }
    }

    pub fn set(&mut self, n: usize, k: &str, v: &str) {
        let op = format!("SET {} {} {}", n, hex(k.as_bytes()), hex(v.as_bytes()));
        self.local(n, op, |c| c.self_node_state().set(k, v));
    }
    pub fn set_with_ttl(&mut self, n: usize, k: &str, v: &str) {
        let op = format!("SETTTL {} {} {}", n, hex(k.as_bytes()), hex(v.as_bytes()));
        self.local(n, op, |c| c.self_node_state().set_with_ttl(k, v));
    }
    pub fn delete(&mut self, n: usize, k: &str) {
        let op = format!("DEL {} {}", n, hex(k.as_bytes()));
        self.local(n, op, |c| c.self_node_state().delete(k));
    }
    pub fn delete_after_ttl(&mut self, n: usize, k: &str) {
        let op = format!("DELTTL {} {}", n, hex(k.as_bytes()));
        self.local(n, op, |c| c.self_node_state().delete_after_ttl(k));
    }
    pub fn gc(&mut self, n: usize) {
        self.local(n, format!("GC {n}"), |c| c.verif_gc_keys_marked_for_deletion());
    }
    pub fn heartbeat(&mut self, n: usize) {
        self.local(n, format!("HB {n}"), |c| c.verif_update_self_heartbeat());
    }

    pub async fn tick(&mut self, dt_ns: u64) {
        if self.dead_case {
            return;
        }
        tokio::time::advance(Duration::from_nanos(dt_ns)).await;
        let obs = format!("now {}", self.now_ns());
        self.record(&format!("TICK {dt_ns}"), &obs);
    }

    /// Liveness evaluation; the oracle is the detector's live set after the call.
    pub fn eval(&mut self, n: usize) {
        if self.dead_case {
            return;
        }
        let cc = &mut self.nodes[n].chitchat;
        let res = catch_unwind(AssertUnwindSafe(|| cc.verif_update_nodes_liveness()));
        let self_id = self.nodes[n].spec.id.clone();
        let live: BTreeSet<ChitchatId> = self.nodes[n]
            .chitchat
            .live_nodes()
            .filter(|id| **id != self_id)
            .cloned()
            .collect();
        let mut op = format!("EVAL {} {}", n, live.len());
        for id in &live {
            let _ = write!(op, " {}", verif_dump_id(id));
        }
        match res {
            Ok(()) => {
                let obs = self.obs(n);
                self.record(&op, &obs);
            }
            Err(_) => self.record_panic(&op),
        }
    }

    pub fn syn(&mut self, n: usize) -> Option<Vec<u8>> {
        if self.dead_case {
            return None;
        }
        let cc = &self.nodes[n].chitchat;
        let res = catch_unwind(AssertUnwindSafe(|| {
            let m = cc.verif_create_syn_message();
            (verif_dump_message(&m), m.serialize_to_vec())
        }));
        match res {
            Ok((dump, bytes)) => {
                let node_dump = self.dump_node(n);
                self.record(&format!("SYN {n}"), &format!("{dump} | {node_dump}"));
                Some(bytes)
            }
            Err(_) => {
                self.record_panic(&format!("SYN {n}"));
                None
            }
        }
    }

    /// Delivers `msg_bytes` (a serialized message) to node `n`. Returns the serialized reply.
    /// Undecodable bytes are skipped like the UDP transport does (not recorded).
    pub fn deliver(&mut self, n: usize, msg_bytes: &[u8]) -> Option<Vec<u8>> {
        if self.dead_case {
            return None;
        }
        let mut buf = msg_bytes;
        let msg = match catch_unwind(AssertUnwindSafe(|| ChitchatMessage::deserialize(&mut buf))) {
            Ok(Ok(m)) => m,
            Ok(Err(_)) => return None,
            Err(_) => {
                self.record_panic(&format!("DECODE {}", hex(msg_bytes)));
                return None;
            }
        };
        let msg_dump = verif_dump_message(&msg);
        let cc = &mut self.nodes[n].chitchat;
        let res = catch_unwind(AssertUnwindSafe(|| {
            let reply = cc.verif_process_message(msg);
            reply.map(|r| {
                let dump = verif_dump_message(&r);
                let bytes = r.serialize_to_vec();
                (dump, bytes)
            })
        }));
        match res {
            Err(_) => {
                // the model needs neither ORD nor ZC to reach the same abort... unless the abort is
                // in the reply computation; give it an empty tail
                self.record_panic(&format!("PROC {n} {msg_dump}"));
                None
            }
            Ok(None) => {
                let obs = self.obs(n);
                self.record(&format!("PROC {n} {msg_dump}"), &format!("reply none bytes 0 | {obs}"));
                None
            }
            Ok(Some((dump, bytes))) => {
                let (ord, delta_len) = reply_order_and_len(&dump);
                let tail = if delta_len > 0 && delta_len <= bytes.len() {
                    zc_table(&bytes[bytes.len() - delta_len..])
                } else {
                    String::new()
                };
                let mut op = format!("PROC {n} {msg_dump} | ORD {}", ord.len());
                for id in &ord {
                    let _ = write!(op, " {id}");
                }
                op.push_str(&tail);
                let obs = self.obs(n);
                self.record(&op, &format!("reply {} bytes {} | {}", dump, bytes.len(), obs));
                Some(bytes)
            }
        }
    }

    /// `ChitchatMessage::deserialize` on arbitrary bytes: outcome, structure, unconsumed rest and
    /// announced length are compared with the model's decoder.
    /// A byte string the harness's independent encoder produced from a well-formed message within the
    /// documented layout: the implementation must accept it (C08).
    pub fn decode_expect_ok(&mut self, bytes: &[u8]) {
        self.decode_tagged(bytes, "DECODEOK");
    }

    pub fn decode(&mut self, bytes: &[u8]) {
        self.decode_tagged(bytes, "DECODE");
    }

    fn decode_tagged(&mut self, bytes: &[u8], tag: &str) {
        if self.dead_case {
            return;
        }
        let res = catch_unwind(AssertUnwindSafe(|| {
            let mut buf = bytes;
            match ChitchatMessage::deserialize(&mut buf) {
                Ok(m) => format!("OK {} rest {} slen {}", verif_dump_message(&m), buf.len(), m.serialized_len()),
                Err(_) => "ERR".to_string(),
            }
        }));
        let op = format!("{tag} {}{}", hex(bytes), crate::util::zd_table_of_message(bytes));
        match res {
            Ok(obs) => self.record(&op, &obs),
            Err(_) => self.record_panic(&op),
        }
    }

    /// Encoder correspondence: the model must encode the structural dump of a message the
    /// implementation emitted to exactly the implementation's bytes; then decode them back.
    pub fn wire_check(&mut self, bytes: &[u8]) {
        if self.dead_case {
            return;
        }
        let mut buf = bytes;
        let Ok(msg) = ChitchatMessage::deserialize(&mut buf) else {
            return;
        };
        let dump = verif_dump_message(&msg);
        let (_, delta_len) = reply_order_and_len(&dump);
        // Re-serializing a decoded message is only meaningful when it is in the writer's normal
        // form (otherwise the recorded length differs and Delta::serialize asserts; decoded deltas
        // are never re-serialized by the library). The zstd answers come from the bytes the
        // implementation's own writer produced.
        let reser = catch_unwind(AssertUnwindSafe(|| msg.serialize_to_vec()));
        if let Ok(b) = reser {
            let tail = if delta_len > 0 && delta_len <= b.len() {
                zc_table(&b[b.len() - delta_len..])
            } else {
                String::new()
            };
            self.record(&format!("ENCODE {dump}{tail}"), &hex(&b));
        }
        self.decode(bytes);
    }

    /// subscribe_event(prefix) with a callback that logs (lid, stripped key, value, member)
    pub fn subscribe(&mut self, n: usize, lid: u64, prefix: &str, forever: bool) {
        if self.dead_case {
            return;
        }
        let log = self.nodes[n].calls.clone();
        let handle = self.nodes[n].chitchat.subscribe_event(prefix, move |e| {
            log.lock().unwrap().push(format!(
                "{} {} {} {}",
                lid,
                hex(e.key.as_bytes()),
                hex(e.value.as_bytes()),
                verif_dump_id(e.node)
            ));
        });
        if forever {
            handle.forever();
            self.nodes[n].subs.push((lid, prefix.to_string(), None));
        } else {
            self.nodes[n].subs.push((lid, prefix.to_string(), Some(handle)));
        }
        self.record(&format!("SUB {} {} {}", n, lid, hex(prefix.as_bytes())), "ok");
    }

    /// drops the handle of listener `lid` (a no-op for a `forever` listener, whose handle is gone)
    pub fn drop_listener(&mut self, n: usize, lid: u64) {
        if self.dead_case {
            return;
        }
        let mut rec = None;
        for (l, p, h) in self.nodes[n].subs.iter_mut() {
            if *l == lid {
                if h.take().is_some() {
                    rec = Some(p.clone());
                }
            }
        }
        if let Some(p) = rec {
            self.record(&format!("UNSUB {} {} {}", n, lid, hex(p.as_bytes())), "ok");
        }
    }

    pub fn calls(&mut self, n: usize) {
        if self.dead_case {
            return;
        }
        let mut l: Vec<String> = std::mem::take(&mut *self.nodes[n].calls.lock().unwrap());
        l.sort();
        let mut obs = format!("{}", l.len());
        for c in l {
            obs.push(' ');
            obs.push_str(&c);
        }
        self.record(&format!("CALLS {n}"), &obs);
    }

    pub fn raw_record(&mut self, op: &str, obs: &str) {
        self.record(op, obs);
    }

    pub fn read(&mut self, n: usize, member: &ChitchatId, key: &str, prefix: &str) {
        if self.dead_case {
            return;
        }
        let op = format!(
            "READ {} {} {} {}",
            n,
            verif_dump_id(member),
            hex(key.as_bytes()),
            hex(prefix.as_bytes())
        );
        let t0 = self.t0;
        let cc = &self.nodes[n].chitchat;
        let obs = match cc.node_state(member) {
            None => "absent".to_string(),
            Some(ns) => {
                let mut out = format!(
                    "get {} contains {}",
                    ns.get(key).map(|v| hex(v.as_bytes())).unwrap_or("none".to_string()),
                    ns.contains_key(key) as u8
                );
                match ns.get_versioned(key) {
                    Some(v) => {
                        let _ = write!(
                            out,
                            " versioned {} {} {}",
                            hex(v.value.as_bytes()),
                            v.version,
                            status_tokens(&v.status, t0)
                        );
                    }
                    None => out.push_str(" versioned none"),
                }
                let kvs: Vec<(&str, &str)> = ns.key_values().collect();
                let _ = write!(out, " num {} kvs {}", ns.num_key_values(), kvs.len());
                for (k, v) in kvs {
                    let _ = write!(out, " {} {}", hex(k.as_bytes()), hex(v.as_bytes()));
                }
                let pf: Vec<(&str, &VersionedValue)> = ns.iter_prefix(prefix).collect();
                let _ = write!(out, " prefix {}", pf.len());
                for (k, v) in pf {
                    let _ = write!(out, " {} {} {}", hex(k.as_bytes()), hex(v.value.as_bytes()), v.version);
                }
                out
            }
        };
        self.record(&op, &obs);
    }

    /// `reset_node_state_if_update` with deletion instants = now.
    pub fn catchup(&mut self, n: usize, member: &ChitchatId, kvs: &[(String, String, u64, u8)], mx: u64, gc: u64) {
        if self.dead_case {
            return;
        }
        let mut op = format!("CATCHUP {} {} {} {} {}", n, verif_dump_id(member), mx, gc, kvs.len());
        for (k, v, ver, st) in kvs {
            let _ = write!(op, " {} {} {} {}", hex(k.as_bytes()), hex(v.as_bytes()), ver, st);
        }
        let now = Instant::now();
        let supplied: Vec<(String, VersionedValue)> = kvs
            .iter()
            .map(|(k, v, ver, st)| {
                (
                    k.clone(),
                    VersionedValue {
                        value: v.clone(),
                        version: *ver,
                        status: match st {
                            0 => DeletionStatus::Set,
                            1 => DeletionStatus::Deleted(now),
                            _ => DeletionStatus::DeleteAfterTtl(now),
                        },
                    },
                )
            })
            .collect();
        let cc = &mut self.nodes[n].chitchat;
        let res = catch_unwind(AssertUnwindSafe(|| {
            cc.reset_node_state_if_update(member, supplied.into_iter(), mx, gc)
        }));
        match res {
            Ok(()) => {
                self.known_ids.insert(member.clone());
                let obs = self.obs(n);
                self.record(&op, &obs);
            }
            Err(_) => self.record_panic(&op),
        }
    }

    /// `verif_compute_delta` on node n for an arbitrary digest / budget / scheduled set.
    pub fn delta(&mut self, n: usize, digest_dump: &str, digest_bytes: &[u8], mtu: usize, sched: &[ChitchatId]) -> Option<usize> {
        if self.dead_case {
            return None;
        }
        let cc = &self.nodes[n].chitchat;
        let res = catch_unwind(AssertUnwindSafe(|| {
            let m = cc.verif_compute_delta(digest_bytes, mtu, sched).expect("digest must decode");
            (verif_dump_message(&m), m.serialize_to_vec())
        }));
        let mut op = format!("DELTA {} {} {} {}", n, digest_dump, mtu, sched.len());
        for id in sched {
            let _ = write!(op, " {}", verif_dump_id(id));
        }
        match res {
            Err(_) => {
                self.record_panic(&op);
                None
            }
            Ok((dump, bytes)) => {
                let (ord, delta_len) = reply_order_and_len(&dump);
                let _ = write!(op, " | ORD {}", ord.len());
                for id in &ord {
                    let _ = write!(op, " {id}");
                }
                if delta_len > 0 && delta_len <= bytes.len() {
                    op.push_str(&zc_table(&bytes[bytes.len() - delta_len..]));
                }
                self.record(&op, &format!("{} bytes {}", dump, bytes.len()));
                Some(bytes.len() - 4)
            }
        }
    }
}

/// From a message dump: ids of the node deltas in order, and the announced delta length.
pub fn reply_order_and_len(dump: &str) -> (Vec<String>, usize) {
    let toks: Vec<&str> = dump.split(' ').collect();
    let Some(x) = toks.iter().position(|t| *t == "X") else {
        return (Vec::new(), 0);
    };
    let len: usize = toks[x + 1].parse().unwrap_or(0);
    let n: usize = toks[x + 2].parse().unwrap_or(0);
    let mut ids = Vec::new();
    let mut i = x + 3;
    for _ in 0..n {
        ids.push(toks[i].to_string());
        let nkv: usize = toks[i + 4].parse().unwrap_or(0);
        i += 5 + 4 * nkv;
    }
    (ids, len)
}
