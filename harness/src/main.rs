//! vharness — drives the real chitchat crate (built from /repo's working tree with the `verif`
//! feature) and writes traces for the extracted Coq model.
//!
//! usage: vharness <suite> <seed> <cases> <out-file>

mod gen;
mod loopsim;
mod replay;
mod sim;
mod util;

use std::io::Write;

fn main() {
    let args: Vec<String> = std::env::args().collect();
    if args.len() < 5 {
        eprintln!("usage: vharness <suite> <seed> <cases> <out-file>");
        std::process::exit(2);
    }
    let suite = args[1].clone();
    let out = args[4].clone();
    sim::silent_panics();
    let (seed, cases): (u64, usize) = if suite == "replay" { (0, 0) } else { (args[2].parse().expect("seed"), args[3].parse().expect("cases")) };
    if suite == "udp" {
        let mut trace = String::new();
        for case in 0..cases {
            trace.push_str(&loopsim::udp_case(seed, case));
        }
        std::fs::write(&out, trace).expect("write out file");
        println!("{{\"cases\":{cases}}}");
        return;
    }
    if suite == "replay" {
        // vharness replay <trace-in> <ignored> <trace-out>
        let rt = tokio::runtime::Builder::new_current_thread().enable_all().start_paused(true).build().unwrap();
        let src = args[2].clone();
        match rt.block_on(async move { replay::replay(&src).await }) {
            Ok(trace) => {
                std::fs::write(&out, trace).expect("write out file");
                println!("{{\"replayed\":true}}");
            }
            Err(e) => {
                println!("{{\"replayed\":false,\"why\":{:?}}}", e);
                std::process::exit(3);
            }
        }
        return;
    }
    let rt = tokio::runtime::Builder::new_current_thread()
        .enable_all()
        .start_paused(true)
        .build()
        .unwrap();
    let (trace, stats) = rt.block_on(async move { gen::run_suite(&suite, seed, cases).await });
    let mut f = std::fs::File::create(&out).expect("create out file");
    f.write_all(trace.as_bytes()).unwrap();
    println!("{stats}");
}
