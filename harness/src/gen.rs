//! Case generators, one per correspondence suite. Everything random derives from the seed.

use std::collections::BTreeMap;

use chitchat::ChitchatId;

use crate::sim::{mk_id, mk_id6, NodeSpec, Pred, Sim};
use crate::util::Prng;

pub struct Stats {
    pub counts: BTreeMap<String, u64>,
}

impl Stats {
    fn new() -> Stats {
        Stats { counts: BTreeMap::new() }
    }
    fn bump(&mut self, k: &str) {
        *self.counts.entry(k.to_string()).or_insert(0) += 1;
    }
    fn add(&mut self, k: &str, n: u64) {
        *self.counts.entry(k.to_string()).or_insert(0) += n;
    }
    fn json(&self) -> String {
        let mut out = String::from("{");
        let mut first = true;
        for (k, v) in &self.counts {
            if !first {
                out.push(',');
            }
            first = false;
            out.push_str(&format!("\"{k}\":{v}"));
        }
        out.push('}');
        out
    }
}

const KEYS: &[&str] = &["", "a", "ab", "abc", "b", "ba", "k", "a\u{e9}", "z\u{1d11e}", "ab "];
const KEYS_MB: &[&str] = &["\u{e9}", "\u{e9}a", "\u{1d11e}", "\u{1d11e}b"];
const VALUES: &[&str] = &["", "x", "y", "xy", "\u{e9}", "0"];
const PREFIXES: &[&str] = &["", "a", "ab", "abc", "b", "c", "a\u{e9}", "z", "\u{e9}"];

fn pick_key(rng: &mut Prng, allow_mb: bool) -> &'static str {
    if allow_mb && rng.chance(1, 6) {
        *rng.pick(KEYS_MB)
    } else {
        *rng.pick(KEYS)
    }
}

/// multi-byte-first keys are only generated when VERIF_MB_KEYS != 0 (default on)
fn mb_keys_enabled() -> bool {
    std::env::var("VERIF_MB_KEYS").map(|v| v != "0").unwrap_or(true)
}

fn high_entropy_string(rng: &mut Prng, n: usize) -> String {
    // 7-bit printable characters with as much entropy as valid one-byte UTF-8 allows: zstd
    // usually stores such blocks raw.
    let mut s = String::with_capacity(n);
    for _ in 0..n {
        s.push((32 + rng.below(95)) as u8 as char);
    }
    s
}

pub async fn run_suite(suite: &str, seed: u64, cases: usize) -> (String, String) {
    let mut rng = Prng::new(seed);
    let mut sim = Sim::new();
    let mut stats = Stats::new();
    for case in 0..cases {
        let mut crng = rng.fork();
        let name = format!("{suite}-{seed}-{case}");
        match suite {
            "kv" => gen_kv(&mut sim, &mut crng, &mut stats, &name).await,
            "proc" => gen_proc(&mut sim, &mut crng, &mut stats, &name).await,
            "apply" => gen_apply(&mut sim, &mut crng, &mut stats, &name).await,
            "catchup" => gen_catchup(&mut sim, &mut crng, &mut stats, &name).await,
            other => panic!("unknown suite {other}"),
        }
        stats.bump("cases");
        stats.add("ops", sim.ops_in_case as u64);
        if sim.dead_case {
            stats.bump("cases_ending_in_panic");
        }
    }
    (std::mem::take(&mut sim.trace), stats.json())
}

// ------------------------------------------------------------------------------------------
// S-kv: local API, reads, GC under the paused clock (one node).
async fn gen_kv(sim: &mut Sim, rng: &mut Prng, stats: &mut Stats, name: &str) {
    sim.start_case(name);
    let grace: u64 = *rng.pick(&[1_000u64, 1_000_000, 7]);
    let mut spec = NodeSpec::simple(mk_id("n0", 0, 1000));
    spec.kv_grace_ns = grace;
    if rng.chance(1, 3) {
        spec.initial = vec![("a".to_string(), "x".to_string()), ("b".to_string(), "".to_string())];
    }
    let me = spec.id.clone();
    sim.join(spec);
    let allow_mb = mb_keys_enabled();
    let nops = rng.range(5, 40);
    for _ in 0..nops {
        if sim.dead_case {
            break;
        }
        match rng.below(100) {
            0..=24 => {
                let (k, v) = (pick_key(rng, allow_mb), *rng.pick(VALUES));
                sim.set(0, k, v);
                stats.bump("op_set");
            }
            25..=39 => {
                let (k, v) = (pick_key(rng, allow_mb), *rng.pick(VALUES));
                sim.set_with_ttl(0, k, v);
                stats.bump("op_set_ttl");
            }
            40..=54 => {
                sim.delete(0, pick_key(rng, allow_mb));
                stats.bump("op_delete");
            }
            55..=64 => {
                sim.delete_after_ttl(0, pick_key(rng, allow_mb));
                stats.bump("op_delete_ttl");
            }
            65..=79 => {
                let dt = *rng.pick(&[0, 1, grace - 1, grace, grace + 1, grace / 2]);
                sim.tick(dt).await;
                match dt {
                    d if d == grace => stats.bump("tick_exactly_grace"),
                    d if d == grace - 1 => stats.bump("tick_grace_minus_1"),
                    d if d == grace + 1 => stats.bump("tick_grace_plus_1"),
                    _ => stats.bump("tick_other"),
                }
            }
            _ => {
                sim.gc(0);
                stats.bump("op_gc");
            }
        }
        let k = pick_key(rng, allow_mb);
        let p = *rng.pick(PREFIXES);
        sim.read(0, &me, k, p);
    }
}

// ------------------------------------------------------------------------------------------
// S-proc: multi-node worlds; any message may be delivered to any node at any time.
fn node_id(i: usize, rng: &mut Prng) -> ChitchatId {
    let names = ["n0", "n1", "n2", "n3", "n4", "n5"];
    if rng.chance(1, 8) {
        mk_id6(names[i], rng.below(2), 2000 + i as u16)
    } else {
        mk_id(names[i], rng.below(2), 2000 + i as u16)
    }
}

async fn gen_proc(sim: &mut Sim, rng: &mut Prng, stats: &mut Stats, name: &str) {
    sim.start_case(name);
    let n_nodes = rng.range(2, 5) as usize;
    let kv_grace: u64 = 1_000_000;
    let dead_grace: u64 = *rng.pick(&[3_906_250_000u64 * 4, 3_906_250_000u64 * 64]);
    let big_mode = rng.chance(1, 12);
    let fd_mode = rng.chance(1, 3);
    let allow_mb = mb_keys_enabled();
    let mut pool: Vec<Vec<u8>> = Vec::new();
    let join = |sim: &mut Sim, rng: &mut Prng, i: usize| {
        let mut spec = NodeSpec::simple(node_id(i, rng));
        spec.kv_grace_ns = kv_grace;
        spec.dead_grace_ns = dead_grace;
        spec.has_cb = rng.chance(3, 4);
        if rng.chance(1, 4) {
            spec.pred = match rng.below(4) {
                0 => Pred::HasEntry("a".to_string()),
                1 => Pred::Visible("a".to_string()),
                2 => Pred::ValEq("a".to_string(), "x".to_string()),
                _ => Pred::MaxEven,
            };
        }
        if rng.chance(1, 3) {
            spec.initial = vec![("a".to_string(), "x".to_string())];
        }
        sim.join(spec)
    };
    let initial_nodes = if rng.chance(1, 3) { n_nodes - 1 } else { n_nodes };
    for i in 0..initial_nodes {
        join(sim, rng, i);
    }
    let nops = rng.range(10, 70);
    for _ in 0..nops {
        if sim.dead_case {
            break;
        }
        let live_nodes = sim.nodes.len();
        let n = rng.below(live_nodes as u64) as usize;
        match rng.below(100) {
            0..=11 => {
                let k = pick_key(rng, allow_mb);
                if big_mode && rng.chance(1, 2) {
                    let len = rng.range(9_000, 33_000) as usize;
                    let v = high_entropy_string(rng, len);
                    sim.set(n, k, &v);
                    stats.bump("op_set_big");
                } else {
                    sim.set(n, k, *rng.pick(VALUES));
                    stats.bump("op_set");
                }
            }
            12..=15 => {
                sim.set_with_ttl(n, pick_key(rng, allow_mb), *rng.pick(VALUES));
                stats.bump("op_set_ttl");
            }
            16..=22 => {
                sim.delete(n, pick_key(rng, allow_mb));
                stats.bump("op_delete");
            }
            23..=25 => {
                sim.delete_after_ttl(n, pick_key(rng, allow_mb));
                stats.bump("op_delete_ttl");
            }
            26..=33 => {
                sim.gc(n);
                stats.bump("op_gc");
            }
            34..=43 => {
                let dt = if fd_mode {
                    *rng.pick(&[1_953_125u64 * 64, 1_953_125 * 512, 1_953_125 * 512 * 3, dead_grace / 2, dead_grace / 2 + 1, dead_grace, kv_grace])
                } else {
                    *rng.pick(&[0, 1, kv_grace - 1, kv_grace, kv_grace + 1, 1_953_125 * 512])
                };
                sim.tick(dt).await;
                stats.bump("op_tick");
            }
            44..=53 => {
                if let Some(b) = sim.syn(n) {
                    pool.push(b);
                }
                stats.bump("op_syn");
            }
            54..=71 => {
                // deliver any message from the pool to any node
                if !pool.is_empty() {
                    let i = rng.below(pool.len() as u64) as usize;
                    let msg = pool[i].clone();
                    if let Some(reply) = sim.deliver(n, &msg) {
                        pool.push(reply);
                    }
                    stats.bump("op_deliver_any");
                }
            }
            72..=87 => {
                // complete handshake n -> m
                let m = rng.below(live_nodes as u64) as usize;
                if m != n {
                    stats.bump("op_handshake");
                    if let Some(syn) = sim.syn(n) {
                        if let Some(synack) = sim.deliver(m, &syn) {
                            if let Some(ack) = sim.deliver(n, &synack) {
                                sim.deliver(m, &ack);
                                if rng.chance(1, 3) {
                                    pool.push(ack);
                                }
                            }
                            if rng.chance(1, 3) {
                                pool.push(synack);
                            }
                        }
                        if rng.chance(1, 3) {
                            pool.push(syn);
                        }
                    }
                }
            }
            88..=93 => {
                sim.eval(n);
                stats.bump("op_eval");
            }
            94..=96 => {
                sim.heartbeat(n);
                stats.bump("op_heartbeat");
            }
            _ => {
                if sim.nodes.len() < n_nodes {
                    let i = sim.nodes.len();
                    join(sim, rng, i);
                    stats.bump("op_join_late");
                }
            }
        }
        while pool.len() > 24 {
            let i = rng.below(pool.len() as u64) as usize;
            pool.swap_remove(i);
        }
    }
}

// ------------------------------------------------------------------------------------------
// crafted messages (independent encoder)
use crate::util::{put_digest, put_header, put_stream, WId, WOp};

fn wid_of(id: &ChitchatId) -> WId {
    let (ipv, ip) = match id.gossip_advertise_addr.ip() {
        std::net::IpAddr::V4(a) => (4u8, u32::from(a) as u128),
        std::net::IpAddr::V6(a) => (6u8, u128::from(a)),
    };
    WId { name: id.node_id.as_bytes().to_vec(), generation: id.generation_id, ipv, ip, port: id.gossip_advertise_addr.port() }
}

fn syn_bytes(cluster: &str, entries: &[(WId, u64, u64, u64)]) -> Vec<u8> {
    let mut out = Vec::new();
    put_header(&mut out, 0);
    put_digest(&mut out, entries);
    crate::util::put_str(&mut out, cluster.as_bytes());
    out
}

fn ack_bytes(ops: &[WOp], block: usize, compress: bool) -> Vec<u8> {
    let mut out = Vec::new();
    put_header(&mut out, 2);
    put_stream(&mut out, ops, block, compress);
    out
}

fn synack_bytes(entries: &[(WId, u64, u64, u64)], ops: &[WOp], block: usize, compress: bool) -> Vec<u8> {
    let mut out = Vec::new();
    put_header(&mut out, 1);
    put_digest(&mut out, entries);
    put_stream(&mut out, ops, block, compress);
    out
}

// S-apply: one receiver, phantom members, crafted deltas over a small exhaustive-ish scope.
pub async fn gen_apply(sim: &mut Sim, rng: &mut Prng, stats: &mut Stats, name: &str) {
    sim.start_case(name);
    let mut spec = NodeSpec::simple(mk_id("r", 0, 3000));
    spec.kv_grace_ns = 1_000;
    spec.has_cb = rng.chance(4, 5);
    sim.join(spec);
    let members = [mk_id("x", 0, 3001), mk_id("y", 1, 3002)];
    let wids: Vec<WId> = members.iter().map(wid_of).collect();
    // make the members known (copies are created by the digest heartbeats)
    let entries: Vec<(WId, u64, u64, u64)> = wids.iter().map(|w| (w.clone(), 3, 0, 0)).collect();
    sim.deliver(0, &syn_bytes("c", &entries));
    let keys = ["a", "b", "ab"];
    let hostile = rng.chance(1, 4);
    let ndeltas = rng.range(1, 7);
    for _ in 0..ndeltas {
        if sim.dead_case {
            break;
        }
        let mut ops = Vec::new();
        let nmembers = if rng.chance(1, 4) { 2 } else { 1 };
        let mut order: Vec<usize> = vec![0, 1];
        if rng.chance(1, 2) {
            order.swap(0, 1);
        }
        for &mi in order.iter().take(nmembers) {
            let gc = rng.below(8);
            let from = if rng.chance(1, 2) { 0 } else { rng.below(8) };
            ops.push(WOp::Node { id: wids[mi].clone(), gc, from });
            let nkv = rng.below(4);
            let mut ver = if hostile && rng.chance(1, 3) { rng.below(8) } else { from + rng.below(3) };
            let mut last = 0;
            for _ in 0..nkv {
                ver += if hostile && rng.chance(1, 5) { 0 } else { 1 + rng.below(2) };
                let status = if hostile && rng.chance(1, 10) { 3 + rng.below(3) as u8 } else { rng.below(3) as u8 };
                let key = *rng.pick(&keys);
                let value = if status == 1 { "" } else { *rng.pick(VALUES) };
                ops.push(WOp::Kv { key: key.as_bytes().to_vec(), value: value.as_bytes().to_vec(), version: ver, status });
                last = ver;
            }
            if nkv == 0 {
                if rng.chance(3, 4) {
                    ops.push(WOp::SetMax(rng.below(9)));
                    stats.bump("delta_setmax_only");
                }
            } else if hostile && rng.chance(1, 2) {
                // SetMaxVersion after key-values: above, equal to or below the last version
                let mv = match rng.below(3) { 0 => last + 1, 1 => last, _ => last.saturating_sub(1 + rng.below(3)) };
                ops.push(WOp::SetMax(mv));
                stats.bump("delta_setmax_after_kvs");
            }
        }
        if hostile && rng.chance(1, 6) {
            // key-value or SetMaxVersion without member header, duplicate header
            match rng.below(3) {
                0 => ops.insert(0, WOp::SetMax(3)),
                1 => ops.insert(0, WOp::Kv { key: b"a".to_vec(), value: b"x".to_vec(), version: 1, status: 0 }),
                _ => {
                    let first = ops[0].clone();
                    ops.push(first);
                }
            }
            stats.bump("delta_bad_grammar");
        }
        let block = *rng.pick(&[16384usize, 7, 30, 64]);
        let bytes = if rng.chance(1, 5) {
            let entries: Vec<(WId, u64, u64, u64)> = wids.iter().map(|w| (w.clone(), rng.below(6), rng.below(8), rng.below(8))).collect();
            synack_bytes(&entries, &ops, block, rng.chance(1, 2))
        } else {
            ack_bytes(&ops, block, rng.chance(1, 2))
        };
        sim.decode(&bytes);
        sim.deliver(0, &bytes);
        stats.bump("crafted_deltas");
        if rng.chance(1, 4) {
            sim.tick(*rng.pick(&[1u64, 999, 1000, 1001])).await;
            sim.gc(0);
        }
    }
}

// S-catchup: reset_node_state_if_update with arbitrary arguments, interleaved with gossip.
pub async fn gen_catchup(sim: &mut Sim, rng: &mut Prng, stats: &mut Stats, name: &str) {
    sim.start_case(name);
    let dead_grace: u64 = 3_906_250_000u64 * 4;
    for i in 0..2 {
        let mut spec = NodeSpec::simple(mk_id(["a", "b"][i], 0, 4000 + i as u16));
        spec.kv_grace_ns = 1_000;
        spec.dead_grace_ns = dead_grace;
        sim.join(spec);
    }
    let ids = [mk_id("a", 0, 4000), mk_id("b", 0, 4001), mk_id("ghost", 2, 4002)];
    let keys = ["a", "b", "ab", "k"];
    let nops = rng.range(4, 25);
    for _ in 0..nops {
        if sim.dead_case {
            break;
        }
        let n = rng.below(2) as usize;
        match rng.below(100) {
            0..=14 => sim.set(n, *rng.pick(&keys), *rng.pick(VALUES)),
            15..=22 => sim.delete(n, *rng.pick(&keys)),
            23..=27 => {
                sim.tick(*rng.pick(&[1u64, 999, 1000, 1001, dead_grace / 2 + 1, dead_grace])).await;
            }
            28..=34 => sim.gc(n),
            35..=54 => {
                let m = 1 - n;
                if let Some(syn) = sim.syn(n) {
                    if let Some(synack) = sim.deliver(m, &syn) {
                        if let Some(ack) = sim.deliver(n, &synack) {
                            sim.deliver(m, &ack);
                        }
                    }
                }
                stats.bump("op_handshake");
            }
            55..=59 => sim.eval(n),
            _ => {
                // catch-up with a supplied state that may or may not be consistent
                // never the node's own id: the owner is the single writer of its namespace
                let mut member = rng.pick(&ids).clone();
                if member == ids[n] {
                    member = ids[1 - n].clone();
                }
                let nk = rng.below(4) as usize;
                let mut kvs = Vec::new();
                let consistent = rng.chance(1, 2);
                let mut ver = rng.below(4);
                for _ in 0..nk {
                    ver += 1 + rng.below(2);
                    let st = rng.below(3) as u8;
                    let key = rng.pick(&keys).to_string();
                    let val = if st == 1 { String::new() } else { rng.pick(VALUES).to_string() };
                    kvs.push((key, val, ver, st));
                }
                // distinct keys only (the API takes an iterator; duplicates are legal but make
                // versions ambiguous) — keep one entry per key
                let mut seen = std::collections::BTreeSet::new();
                kvs.retain(|(k, _, _, _)| seen.insert(k.clone()));
                let (mx, gc) = if consistent {
                    let mx = ver + rng.below(3);
                    (mx, rng.below(mx + 1))
                } else {
                    (rng.below(10), rng.below(12))
                };
                sim.catchup(n, &member, &kvs, mx, gc);
                stats.bump(if consistent { "catchup_consistent" } else { "catchup_arbitrary" });
            }
        }
    }
}
