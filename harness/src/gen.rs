//! Case generators, one per correspondence suite. Everything random derives from the seed.

use std::collections::BTreeMap;

use chitchat::ChitchatId;

use crate::sim::{mk_id, mk_id6, NodeSpec, Pred, Sim};
use crate::util::Prng;

pub struct Stats {
    pub counts: BTreeMap<String, u64>,
}

impl Stats {
    fn new() -> Stats {
        Stats { counts: BTreeMap::new() }
    }
    fn bump(&mut self, k: &str) {
        *self.counts.entry(k.to_string()).or_insert(0) += 1;
    }
    fn add(&mut self, k: &str, n: u64) {
        *self.counts.entry(k.to_string()).or_insert(0) += n;
    }
    fn json(&self) -> String {
        let mut out = String::from("{");
        let mut first = true;
        for (k, v) in &self.counts {
            if !first {
                out.push(',');
            }
            first = false;
            out.push_str(&format!("\"{k}\":{v}"));
        }
        out.push('}');
        out
    }
}

const KEYS: &[&str] = &["", "a", "ab", "abc", "b", "ba", "k", "a\u{e9}", "z\u{1d11e}", "ab "];
const KEYS_MB: &[&str] = &["\u{e9}", "\u{e9}a", "\u{1d11e}", "\u{1d11e}b"];
const VALUES: &[&str] = &["", "x", "y", "xy", "\u{e9}", "0"];
const PREFIXES: &[&str] = &["", "a", "ab", "abc", "b", "c", "a\u{e9}", "z", "\u{e9}"];

fn pick_key(rng: &mut Prng, allow_mb: bool) -> &'static str {
    if allow_mb && rng.chance(1, 6) {
        *rng.pick(KEYS_MB)
    } else {
        *rng.pick(KEYS)
    }
}

/// multi-byte-first keys are only generated when VERIF_MB_KEYS != 0 (default on)
fn mb_keys_enabled() -> bool {
    std::env::var("VERIF_MB_KEYS").map(|v| v != "0").unwrap_or(true)
}

fn high_entropy_string(rng: &mut Prng, n: usize) -> String {
    // 7-bit printable characters with as much entropy as valid one-byte UTF-8 allows: zstd
    // usually stores such blocks raw.
    let mut s = String::with_capacity(n);
    for _ in 0..n {
        s.push((32 + rng.below(95)) as u8 as char);
    }
    s
}

pub async fn run_suite(suite: &str, seed: u64, cases: usize) -> (String, String) {
    let mut rng = Prng::new(seed);
    let mut sim = Sim::new();
    let mut stats = Stats::new();
    for case in 0..cases {
        let mut crng = rng.fork();
        let name = format!("{suite}-{seed}-{case}");
        match suite {
            "kv" => gen_kv(&mut sim, &mut crng, &mut stats, &name).await,
            "proc" => gen_proc(&mut sim, &mut crng, &mut stats, &name).await,
            other => panic!("unknown suite {other}"),
        }
        stats.bump("cases");
        stats.add("ops", sim.ops_in_case as u64);
        if sim.dead_case {
            stats.bump("cases_ending_in_panic");
        }
    }
    (std::mem::take(&mut sim.trace), stats.json())
}

// ------------------------------------------------------------------------------------------
// S-kv: local API, reads, GC under the paused clock (one node).
async fn gen_kv(sim: &mut Sim, rng: &mut Prng, stats: &mut Stats, name: &str) {
    sim.start_case(name);
    let grace: u64 = *rng.pick(&[1_000u64, 1_000_000, 7]);
    let mut spec = NodeSpec::simple(mk_id("n0", 0, 1000));
    spec.kv_grace_ns = grace;
    if rng.chance(1, 3) {
        spec.initial = vec![("a".to_string(), "x".to_string()), ("b".to_string(), "".to_string())];
    }
    let me = spec.id.clone();
    sim.join(spec);
    let allow_mb = mb_keys_enabled();
    let nops = rng.range(5, 40);
    for _ in 0..nops {
        if sim.dead_case {
            break;
        }
        match rng.below(100) {
            0..=24 => {
                let (k, v) = (pick_key(rng, allow_mb), *rng.pick(VALUES));
                sim.set(0, k, v);
                stats.bump("op_set");
            }
            25..=39 => {
                let (k, v) = (pick_key(rng, allow_mb), *rng.pick(VALUES));
                sim.set_with_ttl(0, k, v);
                stats.bump("op_set_ttl");
            }
            40..=54 => {
                sim.delete(0, pick_key(rng, allow_mb));
                stats.bump("op_delete");
            }
            55..=64 => {
                sim.delete_after_ttl(0, pick_key(rng, allow_mb));
                stats.bump("op_delete_ttl");
            }
            65..=79 => {
                let dt = *rng.pick(&[0, 1, grace - 1, grace, grace + 1, grace / 2]);
                sim.tick(dt).await;
                match dt {
                    d if d == grace => stats.bump("tick_exactly_grace"),
                    d if d == grace - 1 => stats.bump("tick_grace_minus_1"),
                    d if d == grace + 1 => stats.bump("tick_grace_plus_1"),
                    _ => stats.bump("tick_other"),
                }
            }
            _ => {
                sim.gc(0);
                stats.bump("op_gc");
            }
        }
        let k = pick_key(rng, allow_mb);
        let p = *rng.pick(PREFIXES);
        sim.read(0, &me, k, p);
    }
}

// ------------------------------------------------------------------------------------------
// S-proc: multi-node worlds; any message may be delivered to any node at any time.
fn node_id(i: usize, rng: &mut Prng) -> ChitchatId {
    let names = ["n0", "n1", "n2", "n3", "n4", "n5"];
    if rng.chance(1, 8) {
        mk_id6(names[i], rng.below(2), 2000 + i as u16)
    } else {
        mk_id(names[i], rng.below(2), 2000 + i as u16)
    }
}

async fn gen_proc(sim: &mut Sim, rng: &mut Prng, stats: &mut Stats, name: &str) {
    sim.start_case(name);
    let n_nodes = rng.range(2, 5) as usize;
    let kv_grace: u64 = 1_000_000;
    let dead_grace: u64 = *rng.pick(&[3_906_250_000u64 * 4, 3_906_250_000u64 * 64]);
    let big_mode = rng.chance(1, 12);
    let fd_mode = rng.chance(1, 3);
    let allow_mb = mb_keys_enabled();
    let mut pool: Vec<Vec<u8>> = Vec::new();
    let join = |sim: &mut Sim, rng: &mut Prng, i: usize| {
        let mut spec = NodeSpec::simple(node_id(i, rng));
        spec.kv_grace_ns = kv_grace;
        spec.dead_grace_ns = dead_grace;
        spec.has_cb = rng.chance(3, 4);
        if rng.chance(1, 4) {
            spec.pred = match rng.below(4) {
                0 => Pred::HasEntry("a".to_string()),
                1 => Pred::Visible("a".to_string()),
                2 => Pred::ValEq("a".to_string(), "x".to_string()),
                _ => Pred::MaxEven,
            };
        }
        if rng.chance(1, 3) {
            spec.initial = vec![("a".to_string(), "x".to_string())];
        }
        sim.join(spec)
    };
    let initial_nodes = if rng.chance(1, 3) { n_nodes - 1 } else { n_nodes };
    for i in 0..initial_nodes {
        join(sim, rng, i);
    }
    let nops = rng.range(10, 70);
    for _ in 0..nops {
        if sim.dead_case {
            break;
        }
        let live_nodes = sim.nodes.len();
        let n = rng.below(live_nodes as u64) as usize;
        match rng.below(100) {
            0..=11 => {
                let k = pick_key(rng, allow_mb);
                if big_mode && rng.chance(1, 2) {
                    let len = rng.range(9_000, 33_000) as usize;
                    let v = high_entropy_string(rng, len);
                    sim.set(n, k, &v);
                    stats.bump("op_set_big");
                } else {
                    sim.set(n, k, *rng.pick(VALUES));
                    stats.bump("op_set");
                }
            }
            12..=15 => {
                sim.set_with_ttl(n, pick_key(rng, allow_mb), *rng.pick(VALUES));
                stats.bump("op_set_ttl");
            }
            16..=22 => {
                sim.delete(n, pick_key(rng, allow_mb));
                stats.bump("op_delete");
            }
            23..=25 => {
                sim.delete_after_ttl(n, pick_key(rng, allow_mb));
                stats.bump("op_delete_ttl");
            }
            26..=33 => {
                sim.gc(n);
                stats.bump("op_gc");
            }
            34..=43 => {
                let dt = if fd_mode {
                    *rng.pick(&[1_953_125u64 * 64, 1_953_125 * 512, 1_953_125 * 512 * 3, dead_grace / 2, dead_grace / 2 + 1, dead_grace, kv_grace])
                } else {
                    *rng.pick(&[0, 1, kv_grace - 1, kv_grace, kv_grace + 1, 1_953_125 * 512])
                };
                sim.tick(dt).await;
                stats.bump("op_tick");
            }
            44..=53 => {
                if let Some(b) = sim.syn(n) {
                    pool.push(b);
                }
                stats.bump("op_syn");
            }
            54..=71 => {
                // deliver any message from the pool to any node
                if !pool.is_empty() {
                    let i = rng.below(pool.len() as u64) as usize;
                    let msg = pool[i].clone();
                    if let Some(reply) = sim.deliver(n, &msg) {
                        pool.push(reply);
                    }
                    stats.bump("op_deliver_any");
                }
            }
            72..=87 => {
                // complete handshake n -> m
                let m = rng.below(live_nodes as u64) as usize;
                if m != n {
                    stats.bump("op_handshake");
                    if let Some(syn) = sim.syn(n) {
                        if let Some(synack) = sim.deliver(m, &syn) {
                            if let Some(ack) = sim.deliver(n, &synack) {
                                sim.deliver(m, &ack);
                                if rng.chance(1, 3) {
                                    pool.push(ack);
                                }
                            }
                            if rng.chance(1, 3) {
                                pool.push(synack);
                            }
                        }
                        if rng.chance(1, 3) {
                            pool.push(syn);
                        }
                    }
                }
            }
            88..=93 => {
                sim.eval(n);
                stats.bump("op_eval");
            }
            94..=96 => {
                sim.heartbeat(n);
                stats.bump("op_heartbeat");
            }
            _ => {
                if sim.nodes.len() < n_nodes {
                    let i = sim.nodes.len();
                    join(sim, rng, i);
                    stats.bump("op_join_late");
                }
            }
        }
        while pool.len() > 24 {
            let i = rng.below(pool.len() as u64) as usize;
            pool.swap_remove(i);
        }
    }
}
