//! Case generators, one per correspondence suite. Everything random derives from the seed.

use std::collections::BTreeMap;

use chitchat::verif::verif_dump_message;
use chitchat::{ChitchatId, ChitchatMessage, DeletionStatus, Deserializable};

use crate::sim::{mk_id, mk_id6, NodeSpec, Pred, Sim};
use crate::util::Prng;

pub struct Stats {
    pub counts: BTreeMap<String, u64>,
}

impl Stats {
    fn new() -> Stats {
        Stats { counts: BTreeMap::new() }
    }
    fn bump(&mut self, k: &str) {
        *self.counts.entry(k.to_string()).or_insert(0) += 1;
    }
    fn add(&mut self, k: &str, n: u64) {
        *self.counts.entry(k.to_string()).or_insert(0) += n;
    }
    fn json(&self) -> String {
        let mut out = String::from("{");
        let mut first = true;
        for (k, v) in &self.counts {
            if !first {
                out.push(',');
            }
            first = false;
            out.push_str(&format!("\"{k}\":{v}"));
        }
        out.push('}');
        out
    }
}

const KEYS: &[&str] = &["", "a", "ab", "abc", "b", "ba", "k", "a\u{e9}", "z\u{1d11e}", "ab "];
const KEYS_MB: &[&str] = &["\u{e9}", "\u{e9}a", "\u{1d11e}", "\u{1d11e}b"];
const VALUES: &[&str] = &["", "x", "y", "xy", "\u{e9}", "0"];
const PREFIXES: &[&str] = &["", "a", "ab", "abc", "b", "c", "a\u{e9}", "z", "\u{e9}"];

fn pick_key(rng: &mut Prng, allow_mb: bool) -> &'static str {
    if allow_mb && rng.chance(1, 6) {
        *rng.pick(KEYS_MB)
    } else {
        *rng.pick(KEYS)
    }
}

/// multi-byte-first keys are only generated when VERIF_MB_KEYS != 0 (default on)
fn mb_keys_enabled() -> bool {
    std::env::var("VERIF_MB_KEYS").map(|v| v != "0").unwrap_or(true)
}

fn high_entropy_string(rng: &mut Prng, n: usize) -> String {
    // Valid UTF-8 whose *byte* histogram is close to uniform over ~240 values (one-, two- and
    // three-byte characters mixed 128:30:16): zstd finds neither matches nor an entropy gain and
    // the stream writer stores such blocks raw. Exactly `n` bytes long.
    let mut s = String::with_capacity(n + 4);
    while s.len() < n {
        let room = n - s.len();
        let r = rng.below(174);
        let c = if r < 128 || room < 2 {
            rng.below(128) as u32
        } else if r < 158 || room < 3 {
            0x80 + rng.below(0x800 - 0x80) as u32
        } else {
            loop {
                let c = 0x800 + rng.below(0x10000 - 0x800) as u32;
                if !(0xD800..=0xDFFF).contains(&c) {
                    break c;
                }
            }
        };
        s.push(char::from_u32(c).unwrap());
    }
    s
}

/// 7-bit printable content: compresses to roughly 83%.
fn printable_string(rng: &mut Prng, n: usize) -> String {
    let mut s = String::with_capacity(n);
    for _ in 0..n {
        s.push((32 + rng.below(95)) as u8 as char);
    }
    s
}

pub async fn run_suite(suite: &str, seed: u64, cases: usize) -> (String, String) {
    let mut rng = Prng::new(seed);
    let mut sim = Sim::new();
    let mut stats = Stats::new();
    for case in 0..cases {
        let mut crng = rng.fork();
        let name = format!("{suite}-{seed}-{case}");
        match suite {
            "kv" => gen_kv(&mut sim, &mut crng, &mut stats, &name).await,
            // every 25th proc case is the scripted "member header refused at the datagram limit" history
            "proc" if case % 25 == 24 => gen_proc_header_boundary(&mut sim, &mut crng, &mut stats, &name).await,
            "proc" => {
                gen_proc(&mut sim, &mut crng, &mut stats, &name).await;
                if case % 10 == 3 {
                    // an extra scripted case (generator forked from this case's: no other case moves)
                    let mut xr = crng.fork();
                    gen_proc_two_setmax_only(&mut sim, &mut xr, &mut stats, &format!("{name}x")).await;
                }
                if case % 10 == 7 {
                    let mut xr = crng.fork();
                    gen_proc_stale_catchup_mid_reset(&mut sim, &mut xr, &mut stats, &format!("{name}y")).await;
                }
            }
            "delta" => gen_delta(&mut sim, &mut crng, &mut stats, &name).await,
            "fill" => gen_fill(&mut sim, &mut crng, &mut stats, &name).await,
            "wire" => gen_wire(&mut sim, &mut crng, &mut stats, &name).await,
            "fd" => gen_fd(&mut sim, &mut crng, &mut stats, &name).await,
            "listen" => gen_listen(&mut sim, &mut crng, &mut stats, &name).await,
            "select" => gen_select(&mut sim, &mut crng, &mut stats, &name).await,
            "loop" => crate::loopsim::gen_loop(&mut sim.trace, &mut crng, &mut stats.counts, &name).await,
            "round" => crate::loopsim::gen_round(&mut sim.trace, &mut crng, &mut stats.counts, &name).await,
            "apply" => gen_apply(&mut sim, &mut crng, &mut stats, &name).await,
            "catchup" => gen_catchup(&mut sim, &mut crng, &mut stats, &name).await,
            "kf1" => gen_kf1(&mut sim, &mut crng, &mut stats, &name).await,
            "conv" => {
                gen_conv(&mut sim, &mut crng, &mut stats, &name).await;
                if case % 6 == 5 {
                    // an extra scripted case (its generator is forked from this case's, so no other
                    // case's choices move)
                    let mut xr = crng.fork();
                    gen_conv_quarantine_and_setmax(&mut sim, &mut xr, &mut stats, &format!("{name}x")).await;
                }
            }
            other => panic!("unknown suite {other}"),
        }
        stats.bump("cases");
        stats.add("ops", sim.ops_in_case as u64);
        if sim.dead_case {
            stats.bump("cases_ending_in_panic");
        }
    }
    (std::mem::take(&mut sim.trace), stats.json())
}

// ------------------------------------------------------------------------------------------
// S-kv: local API, reads, GC under the paused clock (one node).
async fn gen_kv(sim: &mut Sim, rng: &mut Prng, stats: &mut Stats, name: &str) {
    sim.start_case(name);
    let grace: u64 = *rng.pick(&[1_000u64, 1_000_000, 7]);
    let mut spec = NodeSpec::simple(mk_id("n0", 0, 1000));
    spec.kv_grace_ns = grace;
    if rng.chance(1, 3) {
        spec.initial = vec![("a".to_string(), "x".to_string()), ("b".to_string(), "".to_string())];
    }
    let me = spec.id.clone();
    sim.join(spec);
    let allow_mb = mb_keys_enabled();
    let nops = rng.range(5, 40);
    for _ in 0..nops {
        if sim.dead_case {
            break;
        }
        match rng.below(100) {
            0..=24 => {
                let (k, v) = (pick_key(rng, allow_mb), *rng.pick(VALUES));
                sim.set(0, k, v);
                stats.bump("op_set");
            }
            25..=39 => {
                let (k, v) = (pick_key(rng, allow_mb), *rng.pick(VALUES));
                sim.set_with_ttl(0, k, v);
                stats.bump("op_set_ttl");
            }
            40..=54 => {
                sim.delete(0, pick_key(rng, allow_mb));
                stats.bump("op_delete");
            }
            55..=64 => {
                sim.delete_after_ttl(0, pick_key(rng, allow_mb));
                stats.bump("op_delete_ttl");
            }
            65..=79 => {
                let dt = *rng.pick(&[0, 1, grace - 1, grace, grace + 1, grace / 2]);
                sim.tick(dt).await;
                match dt {
                    d if d == grace => stats.bump("tick_exactly_grace"),
                    d if d == grace - 1 => stats.bump("tick_grace_minus_1"),
                    d if d == grace + 1 => stats.bump("tick_grace_plus_1"),
                    _ => stats.bump("tick_other"),
                }
            }
            _ => {
                sim.gc(0);
                stats.bump("op_gc");
            }
        }
        let k = pick_key(rng, allow_mb);
        let p = *rng.pick(PREFIXES);
        sim.read(0, &me, k, p);
    }
}

// ------------------------------------------------------------------------------------------
// S-proc: multi-node worlds; any message may be delivered to any node at any time.
fn node_id(i: usize, rng: &mut Prng) -> ChitchatId {
    let names = ["n0", "n1", "n2", "n3", "n4", "n5"];
    if rng.chance(1, 8) {
        mk_id6(names[i], rng.below(2), 2000 + i as u16)
    } else {
        mk_id(names[i], rng.below(2), 2000 + i as u16)
    }
}

async fn gen_proc(sim: &mut Sim, rng: &mut Prng, stats: &mut Stats, name: &str) {
    sim.start_case(name);
    let n_nodes = rng.range(2, 5) as usize;
    let kv_grace: u64 = 1_000_000;
    let dead_grace: u64 = *rng.pick(&[3_906_250_000u64 * 4, 3_906_250_000u64 * 64]);
    let big_mode = rng.chance(1, 12);
    let fd_mode = rng.chance(1, 3);
    let allow_mb = mb_keys_enabled();
    let mut pool: Vec<Vec<u8>> = Vec::new();
    // sometimes two clusters whose ids are close to each other share the world (C16)
    // (the last pair: ids of 300 bytes that differ only in their last byte)
    let long_a: &'static str = Box::leak(format!("{}a", "L".repeat(299)).into_boxed_str());
    let long_b: &'static str = Box::leak(format!("{}b", "L".repeat(299)).into_boxed_str());
    let cluster_pair: Option<(&str, &str)> = if rng.chance(1, 5) {
        Some(*rng.pick(&[("prod", "Prod"), ("c", ""), ("ab", "abc"), ("x", "y"), ("c ", "c"), (long_a, long_b)]))
    } else {
        None
    };
    if cluster_pair.is_some() {
        stats.bump("cases_two_clusters");
    }
    let join = |sim: &mut Sim, rng: &mut Prng, i: usize| {
        let mut spec = NodeSpec::simple(node_id(i, rng));
        if let Some((c0, c1)) = cluster_pair {
            spec.cluster = if i % 2 == 0 { c0.to_string() } else { c1.to_string() };
        }
        spec.kv_grace_ns = kv_grace;
        spec.dead_grace_ns = dead_grace;
        spec.has_cb = rng.chance(3, 4);
        if rng.chance(1, 4) {
            spec.pred = match rng.below(4) {
                0 => Pred::HasEntry("a".to_string()),
                1 => Pred::Visible("a".to_string()),
                2 => Pred::ValEq("a".to_string(), "x".to_string()),
                _ => Pred::MaxEven,
            };
        }
        if rng.chance(1, 3) {
            spec.initial = vec![("a".to_string(), "x".to_string())];
        }
        sim.join(spec)
    };
    let initial_nodes = if rng.chance(1, 3) { n_nodes - 1 } else { n_nodes };
    for i in 0..initial_nodes {
        join(sim, rng, i);
    }
    let nops = rng.range(10, 70);
    for _ in 0..nops {
        if sim.dead_case {
            break;
        }
        let live_nodes = sim.nodes.len();
        let n = rng.below(live_nodes as u64) as usize;
        match rng.below(100) {
            0..=11 => {
                let k = pick_key(rng, allow_mb);
                if big_mode && rng.chance(1, 2) {
                    let len = rng.range(9_000, 33_000) as usize;
                    let v = high_entropy_string(rng, len);
                    sim.set(n, k, &v);
                    stats.bump("op_set_big");
                } else {
                    sim.set(n, k, *rng.pick(VALUES));
                    stats.bump("op_set");
                }
            }
            12..=15 => {
                sim.set_with_ttl(n, pick_key(rng, allow_mb), *rng.pick(VALUES));
                stats.bump("op_set_ttl");
            }
            16..=22 => {
                sim.delete(n, pick_key(rng, allow_mb));
                stats.bump("op_delete");
            }
            23..=25 => {
                sim.delete_after_ttl(n, pick_key(rng, allow_mb));
                stats.bump("op_delete_ttl");
            }
            26..=33 => {
                sim.gc(n);
                stats.bump("op_gc");
            }
            34..=43 => {
                let dt = if fd_mode {
                    *rng.pick(&[1_953_125u64 * 64, 1_953_125 * 512, 1_953_125 * 512 * 3, dead_grace / 2, dead_grace / 2 + 1, dead_grace, kv_grace])
                } else {
                    *rng.pick(&[0, 1, kv_grace - 1, kv_grace, kv_grace + 1, 1_953_125 * 512])
                };
                sim.tick(dt).await;
                stats.bump("op_tick");
            }
            44..=53 => {
                if let Some(b) = sim.syn(n) {
                    pool.push(b);
                }
                stats.bump("op_syn");
            }
            70..=71 => {
                // a SYN of n is delayed while n writes, syncs with m, and m alone collects
                // tombstones; the delayed SYN then reaches m and its answer reaches n (twice)
                let m = rng.below(live_nodes as u64) as usize;
                if m != n {
                    stats.bump("op_stale_syn_roundtrip");
                    let syn0 = sim.syn(n);
                    if rng.chance(1, 2) {
                        // variant: the OWNER deletes and collects a key its peer still holds, then
                        // the answer to the delayed SYN (which carries that key) comes back
                        let k = pick_key(rng, allow_mb);
                        sim.set(n, k, *rng.pick(VALUES));
                        full_handshake(sim, n, m);
                        if rng.chance(1, 2) {
                            sim.delete(n, k);
                        } else {
                            sim.delete_after_ttl(n, k);
                        }
                        sim.tick(kv_grace).await;
                        sim.gc(n);
                        if let Some(syn0) = syn0 {
                            if let Some(synack) = sim.deliver(m, &syn0) {
                                sim.deliver(n, &synack);
                                if rng.chance(1, 2) {
                                    sim.deliver(n, &synack);
                                }
                            }
                        }
                        continue;
                    }
                    match rng.below(3) {
                        0 => sim.set(n, pick_key(rng, allow_mb), *rng.pick(VALUES)),
                        1 => sim.delete(n, pick_key(rng, allow_mb)),
                        _ => sim.delete_after_ttl(n, pick_key(rng, allow_mb)),
                    }
                    if rng.chance(1, 2) {
                        sim.set(n, pick_key(rng, allow_mb), *rng.pick(VALUES));
                    }
                    full_handshake(sim, n, m);
                    if rng.chance(3, 4) {
                        sim.tick(kv_grace).await;
                        sim.gc(m);
                    }
                    if let Some(syn0) = syn0 {
                        if let Some(synack) = sim.deliver(m, &syn0) {
                            if let Some(ack) = sim.deliver(n, &synack) {
                                pool.push(ack);
                            }
                            sim.deliver(n, &synack);
                        }
                    }
                }
            }
            68..=69 => {
                // the owner rewrites a key with the SAME value under another status, with a complete
                // handshake in between: TTL -> plain set, tombstone -> set "", set -> TTL, TTL -> TTL
                let m = rng.below(live_nodes as u64) as usize;
                if m != n {
                    stats.bump("op_rewrite_same_value");
                    let k = pick_key(rng, allow_mb);
                    let v = *rng.pick(VALUES);
                    match rng.below(6) {
                        4 => {
                            // TTL-marked entry replicated, then hard-deleted by the owner
                            sim.set_with_ttl(n, k, v);
                            full_handshake(sim, m, n);
                            sim.delete(n, k);
                        }
                        5 => {
                            sim.set(n, k, v);
                            sim.delete_after_ttl(n, k);
                            full_handshake(sim, m, n);
                            sim.delete(n, k);
                        }
                        0 => {
                            sim.set_with_ttl(n, k, v);
                            full_handshake(sim, m, n);
                            sim.set(n, k, v);
                        }
                        1 => {
                            sim.set(n, k, v);
                            sim.delete_after_ttl(n, k);
                            full_handshake(sim, m, n);
                            sim.set(n, k, v);
                        }
                        2 => {
                            sim.set(n, k, v);
                            sim.delete(n, k);
                            full_handshake(sim, m, n);
                            sim.set(n, k, "");
                        }
                        _ => {
                            sim.set(n, k, v);
                            full_handshake(sim, m, n);
                            sim.set_with_ttl(n, k, v);
                        }
                    }
                    full_handshake(sim, m, n);
                    if rng.chance(1, 2) {
                        // and a third party learns it through the relay only
                        let t = rng.below(live_nodes as u64) as usize;
                        if t != n && t != m {
                            full_handshake(sim, t, m);
                        }
                    }
                }
            }
            66..=67 => {
                // the answer to a SYN of m is delayed; meanwhile the owner n deletes, collects, and
                // answers a second SYN of m with a RESET that the datagram limit cuts after the first
                // (36 kB) value: m's copy is left with watermark > max version.  The delayed answer
                // (from = m's old max version, between the two) then arrives.
                let m = rng.below(live_nodes as u64) as usize;
                if m != n && rng.chance(1, 4) {
                    stats.bump("op_delayed_answer_after_truncated_reset");
                    let a = high_entropy_string(rng, 36_000);
                    let b = high_entropy_string(rng, 36_000);
                    sim.set(n, "ta", &a);
                    sim.set(n, "tb", &b);
                    sim.set(n, "tc", "1");
                    sim.set(n, "td", "2");
                    for _ in 0..3 {
                        full_handshake(sim, m, n);
                    }
                    sim.delete(n, "td");
                    sim.set(n, "te", "3");
                    let held = sim.syn(m).and_then(|s| sim.deliver(n, &s));
                    sim.tick(kv_grace).await;
                    sim.gc(n);
                    if let Some(syn2) = sim.syn(m) {
                        if let Some(synack2) = sim.deliver(n, &syn2) {
                            sim.deliver(m, &synack2);
                        }
                    }
                    if let Some(h) = held {
                        if let Some(ack) = sim.deliver(m, &h) {
                            pool.push(ack);
                        }
                    }
                    if rng.chance(1, 2) {
                        full_handshake(sim, m, n);
                    }
                }
            }
            54..=65 => {
                // deliver any message from the pool to any node
                if !pool.is_empty() {
                    let i = rng.below(pool.len() as u64) as usize;
                    let msg = pool[i].clone();
                    if let Some(reply) = sim.deliver(n, &msg) {
                        pool.push(reply);
                    }
                    stats.bump("op_deliver_any");
                }
            }
            72..=87 => {
                // complete handshake n -> m
                let m = rng.below(live_nodes as u64) as usize;
                if m != n {
                    stats.bump("op_handshake");
                    if let Some(syn) = sim.syn(n) {
                        if let Some(synack) = sim.deliver(m, &syn) {
                            if let Some(ack) = sim.deliver(n, &synack) {
                                sim.deliver(m, &ack);
                                if rng.chance(1, 3) {
                                    pool.push(ack);
                                }
                            }
                            if rng.chance(1, 3) {
                                pool.push(synack);
                            }
                        }
                        if rng.chance(1, 3) {
                            pool.push(syn);
                        }
                    }
                }
            }
            88..=88 => {
                // key "a" (the one the configured liveness predicates look at) is given a TTL or
                // deleted, everybody evaluates, the grace period passes, tombstone GC removes it —
                // no max version moves — and everybody evaluates again: the predicate verdict must
                // be re-read from the state, not remembered
                stats.bump("op_predicate_key_collected");
                match rng.below(3) {
                    0 => sim.set_with_ttl(n, "a", "x"),
                    1 => {
                        sim.set(n, "a", "x");
                        sim.delete_after_ttl(n, "a");
                    }
                    _ => {
                        sim.set(n, "a", "x");
                        sim.delete(n, "a");
                    }
                }
                let m = rng.below(live_nodes as u64) as usize;
                if m != n {
                    full_handshake(sim, m, n);
                    sim.eval(m);
                }
                sim.eval(n);
                sim.tick(kv_grace).await;
                if rng.chance(1, 2) {
                    // (half of the time the evaluation comes first: an evaluation does not collect
                    // keys, so the verdict it publishes is about the state it leaves)
                    sim.eval(n);
                }
                sim.gc(n);
                if m != n {
                    sim.gc(m);
                    sim.eval(m);
                }
                sim.eval(n);
            }
            89..=89 => {
                // external catch-up: n fetches what peer m currently holds about a third member x
                // (key-values, max version, watermark) and feeds it to reset_node_state_if_update
                let m = rng.below(live_nodes as u64) as usize;
                let x = rng.below(live_nodes as u64) as usize;
                if m != n && x != n && x != m && rng.chance(1, 2) {
                    // the story in which the fetched state no longer has a key the stale copy holds:
                    // x writes k, n learns it, x deletes k, m learns the tombstone and collects it
                    sim.set(x, "ck", "v");
                    full_handshake(sim, n, x);
                    sim.delete(x, "ck");
                    sim.set(x, "ck2", "w");
                    full_handshake(sim, m, x);
                    sim.tick(kv_grace).await;
                    sim.gc(m);
                    stats.bump("op_catchup_after_collected_deletion");
                }
                if m != n && x != n {
                    let xid = sim.nodes[x].spec.id.clone();
                    let fetched = sim.nodes[m].chitchat.node_state(&xid).map(|ns| {
                        let kvs: Vec<(String, String, u64, u8)> = ns
                            .key_values_including_deleted()
                            .map(|(k, vv)| {
                                let st = match vv.status {
                                    DeletionStatus::Set => 0u8,
                                    DeletionStatus::Deleted(_) => 1,
                                    DeletionStatus::DeleteAfterTtl(_) => 2,
                                };
                                (k.to_string(), vv.value.clone(), vv.version, st)
                            })
                            .collect();
                        (kvs, ns.max_version(), ns.last_gc_version())
                    });
                    if let Some((kvs, mx, gc)) = fetched {
                        if kvs.iter().all(|(_, v, _, _)| v.len() < 4_000) {
                            sim.raw_record(&format!("HONEST {m}"), "ok");
                            sim.catchup(n, &xid, &kvs, mx, gc);
                            stats.bump("op_catchup_from_peer");
                        }
                    }
                }
            }
            90..=93 => {
                sim.eval(n);
                stats.bump("op_eval");
            }
            94..=96 => {
                sim.heartbeat(n);
                stats.bump("op_heartbeat");
            }
            _ => {
                if sim.nodes.len() < n_nodes {
                    let i = sim.nodes.len();
                    join(sim, rng, i);
                    stats.bump("op_join_late");
                } else if sim.nodes.len() < 6 && rng.chance(1, 2) {
                    // restart: a new incarnation of an existing member (same node id and address,
                    // next generation); the previous incarnation stops acting from now on only in
                    // the sense that peers will see it silent if the schedule no longer picks it
                    let j = rng.below(sim.nodes.len() as u64) as usize;
                    let old = sim.nodes[j].spec.id.clone();
                    // every ChitchatId is used by at most one incarnation
                    let next_gen = sim
                        .nodes
                        .iter()
                        .filter(|nd| nd.spec.id.node_id == old.node_id)
                        .map(|nd| nd.spec.id.generation_id)
                        .max()
                        .unwrap_or(0)
                        + 1;
                    // either the next generation on the same address, or the SAME generation
                    // re-advertised on a new address (the id is the triple, so it is a new id)
                    let readvertise = rng.chance(1, 3);
                    let mut spec = NodeSpec::simple(if readvertise {
                        let mut addr = old.gossip_advertise_addr;
                        addr.set_port(2100 + sim.nodes.len() as u16);
                        ChitchatId::new(old.node_id.clone(), old.generation_id, addr)
                    } else {
                        ChitchatId::new(old.node_id.clone(), next_gen, old.gossip_advertise_addr)
                    });
                    if readvertise {
                        stats.bump("op_readvertise_same_generation");
                    }
                    spec.kv_grace_ns = kv_grace;
                    spec.dead_grace_ns = dead_grace;
                    let newi = sim.join(spec);
                    stats.bump("op_restart_new_generation");
                    if !readvertise && rng.chance(1, 2) {
                        // the new incarnation learns its previous one from a peer, outlives it by
                        // the dead-node grace period and collects it: its own state must survive
                        let peer = (0..sim.nodes.len()).find(|&p| p != newi && p != j);
                        if let Some(peer) = peer {
                            sim.set(newi, "own", "1");
                            full_handshake(sim, peer, j);
                            full_handshake(sim, newi, peer);
                            sim.eval(newi);
                            sim.tick(dead_grace).await;
                            sim.eval(newi);
                            sim.tick(1).await;
                            sim.eval(newi);
                            full_handshake(sim, newi, peer);
                            stats.bump("op_previous_incarnation_collected");
                        }
                    }
                }
            }
        }
        while pool.len() > 24 {
            let i = rng.below(pool.len() as u64) as usize;
            pool.swap_remove(i);
        }
    }
}

// ------------------------------------------------------------------------------------------
// crafted messages (independent encoder)
use crate::util::{put_digest, put_header, put_stream, WId, WOp};

fn wid_of(id: &ChitchatId) -> WId {
    let (ipv, ip) = match id.gossip_advertise_addr.ip() {
        std::net::IpAddr::V4(a) => (4u8, u32::from(a) as u128),
        std::net::IpAddr::V6(a) => (6u8, u128::from(a)),
    };
    WId { name: id.node_id.as_bytes().to_vec(), generation: id.generation_id, ipv, ip, port: id.gossip_advertise_addr.port() }
}

fn syn_bytes(cluster: &str, entries: &[(WId, u64, u64, u64)]) -> Vec<u8> {
    let mut out = Vec::new();
    put_header(&mut out, 0);
    put_digest(&mut out, entries);
    crate::util::put_str(&mut out, cluster.as_bytes());
    out
}

fn ack_bytes(ops: &[WOp], block: usize, compress: bool) -> Vec<u8> {
    let mut out = Vec::new();
    put_header(&mut out, 2);
    put_stream(&mut out, ops, block, compress);
    out
}

fn synack_bytes(entries: &[(WId, u64, u64, u64)], ops: &[WOp], block: usize, compress: bool) -> Vec<u8> {
    let mut out = Vec::new();
    put_header(&mut out, 1);
    put_digest(&mut out, entries);
    put_stream(&mut out, ops, block, compress);
    out
}

// S-apply: one receiver, phantom members, crafted deltas over a small exhaustive-ish scope.
pub async fn gen_apply(sim: &mut Sim, rng: &mut Prng, stats: &mut Stats, name: &str) {
    sim.start_case(name);
    let mut spec = NodeSpec::simple(mk_id("r", 0, 3000));
    spec.kv_grace_ns = 1_000;
    spec.has_cb = rng.chance(4, 5);
    sim.join(spec);
    let members = [mk_id("x", 0, 3001), mk_id("y", 1, 3002)];
    let wids: Vec<WId> = members.iter().map(wid_of).collect();
    // make the members known (copies are created by the digest heartbeats)
    let entries: Vec<(WId, u64, u64, u64)> = wids.iter().map(|w| (w.clone(), 3, 0, 0)).collect();
    sim.deliver(0, &syn_bytes("c", &entries));
    let keys = ["a", "b", "ab"];
    let hostile = rng.chance(1, 4);
    let ndeltas = rng.range(1, 7);
    for _ in 0..ndeltas {
        if sim.dead_case {
            break;
        }
        let mut ops = Vec::new();
        let nmembers = if rng.chance(1, 4) { 2 } else { 1 };
        let mut order: Vec<usize> = vec![0, 1];
        if rng.chance(1, 2) {
            order.swap(0, 1);
        }
        for &mi in order.iter().take(nmembers) {
            let gc = rng.below(8);
            let from = if rng.chance(1, 2) { 0 } else { rng.below(8) };
            ops.push(WOp::Node { id: wids[mi].clone(), gc, from });
            let nkv = rng.below(4);
            let mut ver = if hostile && rng.chance(1, 3) { rng.below(8) } else { from + rng.below(3) };
            let mut last = 0;
            for _ in 0..nkv {
                ver += if hostile && rng.chance(1, 5) { 0 } else { 1 + rng.below(2) };
                let status = if hostile && rng.chance(1, 10) { 3 + rng.below(3) as u8 } else { rng.below(3) as u8 };
                let key = *rng.pick(&keys);
                let value = if status == 1 { "" } else { *rng.pick(VALUES) };
                ops.push(WOp::Kv { key: key.as_bytes().to_vec(), value: value.as_bytes().to_vec(), version: ver, status });
                last = ver;
            }
            if nkv == 0 {
                if rng.chance(3, 4) {
                    ops.push(WOp::SetMax(rng.below(9)));
                    stats.bump("delta_setmax_only");
                }
            } else if hostile && rng.chance(1, 2) {
                // SetMaxVersion after key-values: above, equal to or below the last version
                let mv = match rng.below(3) { 0 => last + 1, 1 => last, _ => last.saturating_sub(1 + rng.below(3)) };
                ops.push(WOp::SetMax(mv));
                stats.bump("delta_setmax_after_kvs");
            }
        }
        if hostile && rng.chance(1, 6) {
            // key-value or SetMaxVersion without member header, duplicate header
            match rng.below(3) {
                0 => ops.insert(0, WOp::SetMax(3)),
                1 => ops.insert(0, WOp::Kv { key: b"a".to_vec(), value: b"x".to_vec(), version: 1, status: 0 }),
                _ => {
                    let first = ops[0].clone();
                    ops.push(first);
                }
            }
            stats.bump("delta_bad_grammar");
        }
        let block = *rng.pick(&[16384usize, 7, 30, 64]);
        // a hostile digest may name the RECEIVER ITSELF, with a heartbeat it never had (up to
        // u64::MAX): a node's own heartbeat is its own business (C05) and must not be pushed to
        // the overflow point (C09)
        let self_entry = |rng: &mut Prng, entries: &mut Vec<(WId, u64, u64, u64)>, stats: &mut Stats| {
            if hostile && rng.chance(1, 2) {
                let hb = *rng.pick(&[2u64, 50, u64::MAX - 1, u64::MAX]);
                entries.push((wid_of(&mk_id("r", 0, 3000)), hb, rng.below(4), rng.below(4)));
                stats.bump("digest_names_receiver");
            }
        };
        let bytes = if rng.chance(1, 5) {
            let mut entries: Vec<(WId, u64, u64, u64)> = wids.iter().map(|w| (w.clone(), rng.below(6), rng.below(8), rng.below(8))).collect();
            self_entry(rng, &mut entries, stats);
            synack_bytes(&entries, &ops, block, rng.chance(1, 2))
        } else {
            ack_bytes(&ops, block, rng.chance(1, 2))
        };
        sim.decode(&bytes);
        sim.deliver(0, &bytes);
        stats.bump("crafted_deltas");
        if rng.chance(1, 2) {
            // whatever the delta left in the node's state, the node must still be able to answer a
            // peer that knows nothing (it gossips every member it holds) or that is one version behind
            let mut entries: Vec<(WId, u64, u64, u64)> = if rng.chance(1, 2) {
                Vec::new()
            } else {
                wids.iter().map(|w| (w.clone(), rng.below(6), rng.below(3), rng.below(8))).collect()
            };
            self_entry(rng, &mut entries, stats);
            sim.deliver(0, &syn_bytes("c", &entries));
            stats.bump("syn_after_crafted_delta");
        }
        if rng.chance(1, 4) {
            sim.tick(*rng.pick(&[1u64, 999, 1000, 1001])).await;
            sim.gc(0);
        }
    }
}

// S-catchup: reset_node_state_if_update with arbitrary arguments, interleaved with gossip.
pub async fn gen_catchup(sim: &mut Sim, rng: &mut Prng, stats: &mut Stats, name: &str) {
    sim.start_case(name);
    let dead_grace: u64 = 3_906_250_000u64 * 4;
    for i in 0..2 {
        let mut spec = NodeSpec::simple(mk_id(["a", "b"][i], 0, 4000 + i as u16));
        spec.kv_grace_ns = 1_000;
        spec.dead_grace_ns = dead_grace;
        sim.join(spec);
    }
    let ids = [mk_id("a", 0, 4000), mk_id("b", 0, 4001), mk_id("ghost", 2, 4002)];
    let keys = ["a", "b", "ab", "k"];
    if rng.chance(1, 6) {
        // a member known ONLY through catch-up (no heartbeat ever seen): it is never live, is
        // marked dead, removed after the grace period — and must not be recreated by a later catch-up
        stats.bump("catchup_cases_member_known_only_through_catchup");
        let n = rng.below(2) as usize;
        let ghost = ids[2].clone();
        sim.catchup(n, &ghost, &[("k".to_string(), "x".to_string(), 1, 0)], 1 + rng.below(2), 0);
        sim.eval(n);
        sim.tick(dead_grace / 2 + 1).await;
        sim.eval(n);
        sim.tick(dead_grace).await;
        sim.eval(n);
        let mx = 2 + rng.below(3);
        sim.catchup(n, &ghost, &[("k".to_string(), "y".to_string(), mx, 0)], mx, rng.below(2));
        sim.eval(n);
    }
    let nops = rng.range(4, 25);
    for _ in 0..nops {
        if sim.dead_case {
            break;
        }
        let n = rng.below(2) as usize;
        match rng.below(100) {
            0..=14 => sim.set(n, *rng.pick(&keys), *rng.pick(VALUES)),
            15..=22 => sim.delete(n, *rng.pick(&keys)),
            23..=27 => {
                sim.tick(*rng.pick(&[1u64, 999, 1000, 1001, dead_grace / 2 + 1, dead_grace])).await;
            }
            28..=34 => sim.gc(n),
            35..=54 => {
                let m = 1 - n;
                if let Some(syn) = sim.syn(n) {
                    if let Some(synack) = sim.deliver(m, &syn) {
                        if let Some(ack) = sim.deliver(n, &synack) {
                            sim.deliver(m, &ack);
                        }
                    }
                }
                stats.bump("op_handshake");
            }
            55..=59 => sim.eval(n),
            _ => {
                // catch-up with a supplied state that may or may not be consistent
                // never the node's own id: the owner is the single writer of its namespace
                let mut member = rng.pick(&ids).clone();
                if member == ids[n] {
                    member = ids[1 - n].clone();
                }
                let nk = rng.below(4) as usize;
                let mut kvs = Vec::new();
                let consistent = rng.chance(1, 2);
                let mut ver = rng.below(4);
                for _ in 0..nk {
                    ver += 1 + rng.below(2);
                    let st = rng.below(3) as u8;
                    let key = rng.pick(&keys).to_string();
                    let val = if st == 1 { String::new() } else { rng.pick(VALUES).to_string() };
                    kvs.push((key, val, ver, st));
                }
                // distinct keys only (the API takes an iterator; duplicates are legal but make
                // versions ambiguous) — keep one entry per key
                let mut seen = std::collections::BTreeSet::new();
                kvs.retain(|(k, _, _, _)| seen.insert(k.clone()));
                let (mx, gc) = if consistent {
                    let mx = ver + rng.below(3);
                    (mx, rng.below(mx + 1))
                } else {
                    (rng.below(10), rng.below(12))
                };
                sim.catchup(n, &member, &kvs, mx, gc);
                stats.bump(if consistent { "catchup_consistent" } else { "catchup_arbitrary" });
            }
        }
    }
    if !sim.dead_case && rng.chance(1, 3) {
        // a copy left mid-reset (watermark W above its max version M) is caught up with a state that
        // is newer overall (max version above W) but whose own watermark is OLDER than W and whose
        // keys all lie below W (a relayed partial copy): the result must keep watermark W
        stats.bump("catchup_mid_reset_copy_older_watermark");
        let n = rng.below(2) as usize;
        let member = mk_id("mid", 3, 4003);
        let m = 1 + rng.below(9);
        let w = m + 5 + rng.below(40);
        sim.catchup(n, &member, &[("a".to_string(), "x".to_string(), m, 0)], m, w);
        let v = m + 1 + rng.below(w - m - 1);
        let mx = w + rng.below(20);
        let g = rng.below(w);
        let st = *rng.pick(&[0u8, 0, 1, 2]);
        sim.catchup(n, &member, &[("b".to_string(), "y".to_string(), v, st)], mx, g);
    }
    if !sim.dead_case && mb_keys_enabled() && rng.chance(1, 3) {
        // keys whose FIRST character is multi-byte (the class of F-2), through the catch-up path:
        // a tombstone and live keys installed over an ASCII key (round 13: every other catch-up
        // key was ASCII, so the listener dispatch was never reached with such a key from here)
        stats.bump("catchup_multibyte_first_keys");
        let n = rng.below(2) as usize;
        let member = mk_id("mb", 4, 4004);
        sim.catchup(n, &member, &[("a".to_string(), "x".to_string(), 1, 0)], 1, 0);
        let st = *rng.pick(&[0u8, 0, 2]);
        let mx = 4 + rng.below(3);
        sim.catchup(
            n,
            &member,
            &[
                ("\u{e9}t\u{e9}".to_string(), "".to_string(), 2, 1),
                ("\u{e9}cole".to_string(), "v".to_string(), 3, st),
                ("\u{1d11e}".to_string(), "w".to_string(), 4, 0),
            ],
            mx,
            rng.below(2),
        );
    }
}

// ------------------------------------------------------------------------------------------
// S-delta: delta computation under arbitrary digests and size budgets (C07, C14).
fn sized_value(rng: &mut Prng, len: usize, entropy: u64) -> String {
    match entropy {
        0 => "a".repeat(len),
        1 => {
            // mildly compressible: short alphabet
            let mut s = String::with_capacity(len);
            for _ in 0..len {
                s.push((b'a' + rng.below(4) as u8) as char);
            }
            s
        }
        2 => printable_string(rng, len),
        _ => high_entropy_string(rng, len),
    }
}

fn pick_len(rng: &mut Prng, big: bool) -> usize {
    if big {
        match rng.below(10) {
            0 => rng.range(16_370, 16_400) as usize,
            1 => rng.range(32_750, 32_790) as usize,
            2 => rng.range(49_130, 49_170) as usize,
            3 => rng.range(60_000, 65_400) as usize,
            4 => rng.range(1_900, 2_100) as usize,
            _ => rng.range(0, 9_000) as usize,
        }
    } else {
        *rng.pick(&[0usize, 1, 2, 5, 17, 255, 256, 300])
    }
}

fn digest_text(entries: &[(ChitchatId, u64, u64, u64)]) -> String {
    // BTreeMap order, like the implementation's dump
    let mut sorted: Vec<&(ChitchatId, u64, u64, u64)> = entries.iter().collect();
    sorted.sort_by(|a, b| a.0.cmp(&b.0));
    sorted.dedup_by(|a, b| a.0 == b.0);
    let mut out = format!("D {}", sorted.len());
    for (id, hb, gc, mx) in sorted {
        out.push_str(&format!(" {} {} {} {}", chitchat::verif::verif_dump_id(id), hb, gc, mx));
    }
    out
}

pub async fn gen_delta(sim: &mut Sim, rng: &mut Prng, stats: &mut Stats, name: &str) {
    sim.start_case(name);
    sim.no_events();
    let mut spec = NodeSpec::simple(mk_id("s", 0, 5000));
    spec.kv_grace_ns = 1_000;
    sim.join(spec);
    let me = mk_id("s", 0, 5000);
    if rng.chance(1, 8) {
        // budget sweep over members that are ahead only by their max version (top versions were
        // collected tombstones: the node delta is a header plus one SetMaxVersion op), every budget
        // from the minimum up: each boundary at which one more operation fits is visited
        let nmem = rng.range(2, 5) as usize;
        let noisy = rng.chance(2, 3);
        let mut syn_entries = Vec::new();
        let mut ids = Vec::new();
        for i in 0..nmem {
            // high-entropy names, generations, addresses, watermarks and versions in half of the
            // sweeps: the block is then stored raw and the byte count is exact
            let nm = if noisy { format!("w{i}{}", high_entropy_string(rng, 6)) } else { format!("w{i}") };
            let generation = if noisy { rng.next_u64() >> 1 } else { 0 };
            let id = if noisy {
                let r = rng.next_u64();
                ChitchatId::new(
                    nm,
                    generation,
                    std::net::SocketAddr::new(
                        if r & 1 == 0 {
                            std::net::IpAddr::V4(std::net::Ipv4Addr::new((r >> 8) as u8 | 1, (r >> 16) as u8, (r >> 24) as u8, (r >> 32) as u8 | 1))
                        } else {
                            std::net::IpAddr::V6(std::net::Ipv6Addr::from(((r as u128) << 64 | rng.next_u64() as u128) | (0x2001u128 << 112)))
                        },
                        1024 + (r >> 40) as u16 % 60_000,
                    ),
                )
            } else if rng.chance(1, 4) {
                mk_id6(&nm, generation, 5200 + i as u16)
            } else {
                mk_id(&nm, generation, 5200 + i as u16)
            };
            syn_entries.push((wid_of(&id), 1, 0, 0));
            ids.push((id, noisy));
        }
        sim.deliver(0, &syn_bytes("c", &syn_entries));
        for (id, noisy) in &ids {
            let gc = if *noisy { rng.next_u64() >> 2 } else { *rng.pick(&[0u64, 3]) };
            let ops = vec![WOp::Node { id: wid_of(id), gc, from: 0 }, WOp::SetMax(gc + 3 + rng.below(4))];
            sim.deliver(0, &ack_bytes(&ops, 16384, false));
        }
        let mut dbytes = Vec::new();
        put_digest(&mut dbytes, &[]);
        for mtu in 100..(100 + 50 * nmem) {
            if sim.dead_case {
                break;
            }
            sim.delta(0, &digest_text(&[]), &dbytes, mtu, &[]);
        }
        stats.bump("delta_setmax_budget_sweeps");
        return;
    }
    if rng.chance(1, 10) {
        // an entry whose encoded operation is longer than a block payload can ever be (key + value >
        // 65,521 bytes) between two small ones: it can never be sent, and nothing after it may be
        stats.bump("delta_oversized_entry");
        sim.set(0, "a", "1");
        let klen = rng.range(530, 700) as usize;
        let k: String = "k".repeat(klen);
        let v = high_entropy_string(rng, 65_000);
        sim.set(0, &k, &v);
        sim.set(0, "z", "2");
        let mut dbytes = Vec::new();
        put_digest(&mut dbytes, &[]);
        for mtu in [65_507usize - 4, 65_000, 40_000, 1_000] {
            sim.delta(0, &digest_text(&[]), &dbytes, mtu, &[]);
        }
        // and through the real handshake path
        sim.deliver(0, &syn_bytes("c", &[]));
        return;
    }
    let mode = rng.below(4);
    let big = mode != 0;
    // own keys
    let nown = if big { rng.range(0, 6) } else { rng.range(0, 40) };
    for i in 0..nown {
        let len = pick_len(rng, big);
        let ent = rng.below(4);
        let v = sized_value(rng, len, ent);
        sim.set(0, &format!("k{i}"), &v);
        if rng.chance(1, 6) {
            sim.delete(0, &format!("k{}", rng.below(i + 1)));
        }
    }
    // phantom members
    let nmem = if big { rng.range(0, 5) } else { rng.range(0, 40) } as usize;
    let mut members: Vec<(ChitchatId, u64, u64)> = Vec::new(); // id, gc, max
    let mut syn_entries = Vec::new();
    for i in 0..nmem {
        let name_len = *rng.pick(&[1usize, 2, 8, 40]);
        let nm: String = format!("m{i}").chars().chain(std::iter::repeat('x')).take(name_len.max(2 + i / 10)).collect();
        let id = if rng.chance(1, 5) { mk_id6(&nm, rng.below(3), 5100 + i as u16) } else { mk_id(&nm, rng.below(3), 5100 + i as u16) };
        syn_entries.push((wid_of(&id), 1, 0, 0));
        members.push((id, 0, 0));
    }
    if nmem > 0 {
        sim.deliver(0, &syn_bytes("c", &syn_entries));
    }
    for (id, gcv, maxv) in members.iter_mut() {
        let gc = *rng.pick(&[0u64, 0, 2, 5]);
        let mut ops = vec![WOp::Node { id: wid_of(id), gc, from: 0 }];
        let nk = if big { rng.below(4) } else { rng.below(8) };
        let mut ver = 0;
        for j in 0..nk {
            ver += 1 + rng.below(3);
            let status = rng.below(3) as u8;
            let len = pick_len(rng, big);
            let ent = rng.below(4);
            let v = if status == 1 { String::new() } else { sized_value(rng, len, ent) };
            ops.push(WOp::Kv { key: format!("q{j}").into_bytes(), value: v.into_bytes(), version: ver, status });
        }
        if nk == 0 {
            ver = rng.below(6);
            if ver > 0 {
                ops.push(WOp::SetMax(ver));
            }
        }
        sim.deliver(0, &ack_bytes(&ops, 16384, false));
        *gcv = gc;
        *maxv = ver;
    }
    stats.add("delta_members", nmem as u64);
    if sim.dead_case {
        return;
    }
    // queries
    let own_max = sim.nodes[0].chitchat.self_node_state().max_version();
    let mut all: Vec<(ChitchatId, u64, u64)> = members.clone();
    all.push((me.clone(), 0, own_max));
    let nq = rng.range(2, 8);
    for _ in 0..nq {
        if sim.dead_case {
            break;
        }
        let mut entries: Vec<(ChitchatId, u64, u64, u64)> = Vec::new();
        for (id, gc, mx) in &all {
            match rng.below(6) {
                0 => {} // absent from the digest
                _ => {
                    let dmax = match rng.below(5) {
                        0 => 0,
                        1 => mx.saturating_sub(1),
                        2 => *mx,
                        3 => mx + 1,
                        _ => rng.below(mx + 1),
                    };
                    let dgc = match rng.below(4) {
                        0 => 0,
                        1 => gc.saturating_sub(1),
                        2 => *gc,
                        _ => gc + 1,
                    };
                    entries.push((id.clone(), rng.below(5), dgc, dmax));
                }
            }
        }
        if rng.chance(1, 5) {
            entries.push((mk_id("stranger", 0, 5999), 3, 1, 4));
        }
        let wentries: Vec<(WId, u64, u64, u64)> = {
            let mut sorted = entries.clone();
            sorted.sort_by(|a, b| a.0.cmp(&b.0));
            sorted.iter().map(|(id, hb, gc, mx)| (wid_of(id), *hb, *gc, *mx)).collect()
        };
        let mut dbytes = Vec::new();
        put_digest(&mut dbytes, &wentries);
        let mtu = match rng.below(12) {
            0 => 100,
            1 => rng.range(100, 400) as usize,
            2 => rng.range(16_380, 16_392) as usize,
            3 => rng.range(32_760, 32_780) as usize,
            4 => rng.range(49_140, 49_170) as usize,
            5 => 65_507 - 1,
            6 => 65_507 - 4,
            7 => rng.range(400, 5_000) as usize,
            8 => rng.range(60_000, 65_507) as usize,
            _ => rng.range(100, 65_507) as usize,
        };
        let mut sched = Vec::new();
        for (id, _, _) in &members {
            if rng.chance(1, 8) {
                sched.push(id.clone());
            }
        }
        sim.delta(0, &digest_text(&entries), &dbytes, mtu, &sched);
        stats.bump("delta_queries");
        if mtu < 16_384 {
            stats.bump("delta_mtu_below_block");
        }
    }
    // and through the real handshake path (budget computed by process_message)
    if rng.chance(1, 2) {
        let mut sorted: Vec<(ChitchatId, u64, u64)> = members.clone();
        sorted.sort_by(|a, b| a.0.cmp(&b.0));
        let wentries: Vec<(WId, u64, u64, u64)> = sorted.iter().filter(|_| rng.chance(2, 3)).map(|(id, _, _)| (wid_of(id), 2, 0, 0)).collect();
        sim.deliver(0, &syn_bytes("c", &wentries));
        stats.bump("delta_via_syn");
    }
}

// S-fill: payloads sized to land exactly on the budget (every block stored raw): the sizes at
// which a wrong header reserve or a wrong block-count bound overflows the datagram.
pub async fn gen_fill(sim: &mut Sim, rng: &mut Prng, stats: &mut Stats, name: &str) {
    sim.start_case(name);
    sim.no_events();
    let mut spec = NodeSpec::simple(mk_id("s", 0, 5000));
    spec.kv_grace_ns = 1_000;
    sim.join(spec);
    let mode = rng.below(3);
    // message: 4 header + digest (2 + 1*(2+1+8+7+24)=44) + delta
    // delta, all raw: blocks*3 + content + 1
    let target_total: i64 = 65_507 + rng.range(0, 6) as i64 - 3; // aim at limit-3 .. limit+2
    let digest_len: i64 = 2 + (2 + 1 + 8 + 7) + 24;
    let node_op: i64 = 1 + (2 + 1 + 8 + 7) + 16;
    let content_target = target_total - 4 - digest_len - 1;
    match mode {
        0 => {
            // many 2000-byte values then one filler
            let per = 1 + 2 + 3 + 2 + 2000 + 8 + 1;
            let mut content = node_op;
            let mut i = 0;
            while content + per + 3 * ((content + per + 16383) / 16384) < content_target - 30 {
                let v = high_entropy_string(rng, 2000);
                sim.set(0, &format!("k{:02}", i), &v);
                content += per;
                i += 1;
            }
            // filler: choose the value length so that content + 3*blocks = content_target
            let mut l: i64 = 0;
            for cand in 0..40_000i64 {
                let c = content + 1 + 2 + 3 + 2 + cand + 8 + 1;
                let blocks = (c + 16383) / 16384;
                if c + 3 * blocks >= content_target {
                    l = cand;
                    break;
                }
            }
            let v = high_entropy_string(rng, l as usize);
            sim.set(0, "kzz", &v);
            stats.bump("fill_many_values");
        }
        1 => {
            // one giant value spanning several raw blocks
            let l = rng.range(65_200, 65_480) as usize;
            let v = high_entropy_string(rng, l);
            sim.set(0, "g", &v);
            stats.bump("fill_giant_value");
        }
        _ => {
            let l = (content_target - node_op - (1 + 2 + 1 + 2 + 8 + 1) - 3 * 4).max(0) as usize + rng.below(8) as usize;
            let v = high_entropy_string(rng, l.min(65_500));
            sim.set(0, "g", &v);
            stats.bump("fill_single_exact");
        }
    }
    // a peer that knows nothing about s asks
    sim.deliver(0, &syn_bytes("c", &[]));
    // and the ACK path: SYN-ACK from a peer whose digest says it knows nothing
    let mut out = Vec::new();
    put_header(&mut out, 1);
    put_digest(&mut out, &[]);
    put_stream(&mut out, &[], 16384, false);
    sim.deliver(0, &out);
    // the same question from a peer whose digest names three members s has never heard of: s's own
    // digest in the SYN-ACK grows by three entries, and the delta must shrink accordingly — the
    // budget is what is left AFTER the digest that is actually sent
    let strangers: Vec<(WId, u64, u64, u64)> = (0..3)
        .map(|i| (wid_of(&mk_id(&format!("stranger-{}-{}", i, "z".repeat(30)), 0, 5900 + i as u16)), 1, 0, 0))
        .collect();
    sim.deliver(0, &syn_bytes("c", &strangers));
}

// ------------------------------------------------------------------------------------------
// S-wire: codec in both directions, well-formed and malformed (C08, C09).
fn str_of_len(rng: &mut Prng, n: usize) -> Vec<u8> {
    match rng.below(3) {
        0 => vec![b'a'; n],
        1 => printable_string(rng, n).into_bytes(),
        _ => high_entropy_string(rng, n).into_bytes(),
    }
}

fn len_class(rng: &mut Prng) -> usize {
    *rng.pick(&[0usize, 0, 1, 1, 2, 7, 255, 256, 257, 16_383, 16_384, 16_385, 40_000, 65_535])
}

fn rand_wid(rng: &mut Prng, i: usize) -> WId {
    let name_len = if rng.chance(1, 30) { len_class(rng).min(65_535) } else { *rng.pick(&[0usize, 1, 2, 3, 9]) };
    let mut name = str_of_len(rng, name_len);
    if name_len >= 2 {
        // make names distinct
        let tag = format!("{i}");
        let t = tag.as_bytes();
        let k = t.len().min(name.len());
        name[..k].copy_from_slice(&t[..k]);
        if std::str::from_utf8(&name).is_err() {
            name = vec![b'n'; name_len];
            name[..k].copy_from_slice(&t[..k]);
        }
    }
    let v6 = rng.chance(1, 3);
    WId {
        name,
        generation: *rng.pick(&[0u64, 1, 255, 256, u64::MAX, 1_700_000_000]),
        ipv: if v6 { 6 } else { 4 },
        ip: if v6 {
            match rng.below(6) {
                // special IPv6 forms: IPv4-mapped (::ffff:a.b.c.d), IPv4-compatible, loopback, unspecified
                0 => 0xffff_0000_0000u128 | (rng.next_u64() as u32 as u128),
                1 => rng.next_u64() as u32 as u128,
                2 => 1,
                3 => 0,
                _ => ((rng.next_u64() as u128) << 64) | rng.next_u64() as u128,
            }
        } else {
            rng.next_u64() as u32 as u128
        },
        port: rng.next_u64() as u16,
    }
}

fn rand_ops(rng: &mut Prng, hostile: bool) -> Vec<WOp> {
    let mut ops = Vec::new();
    let nnodes = rng.below(5);
    let mut prev_ids: Vec<WId> = Vec::new();
    for i in 0..nnodes {
        let mut id = rand_wid(rng, i as usize);
        if !prev_ids.is_empty() && rng.chance(1, 4) {
            // near-duplicate of an earlier member: the ids are triples, so a member that differs
            // from another one in a single component (address, port, generation or name) is distinct
            let base = prev_ids[rng.below(prev_ids.len() as u64) as usize].clone();
            id = match rng.below(4) {
                0 => WId { port: base.port.wrapping_add(1), ..base },
                1 => WId { ip: base.ip ^ 1, ..base },
                2 => WId { generation: base.generation.wrapping_add(1), ..base },
                _ => WId { ipv: if base.ipv == 4 { 6 } else { 4 }, ip: base.ip & 0xffff_ffff, ..base },
            };
        }
        prev_ids.push(id.clone());
        ops.push(WOp::Node { id, gc: rng.below(9), from: rng.below(9) });
        let nk = rng.below(5);
        let mut ver = rng.below(5);
        for _ in 0..nk {
            ver += if hostile && rng.chance(1, 6) { 0 } else { 1 + rng.below(3) };
            let klen = if rng.chance(1, 12) { len_class(rng) } else { rng.below(6) as usize };
            let vlen = if rng.chance(1, 8) { len_class(rng) } else { rng.below(40) as usize };
            // one op must stay <= 65,535 bytes for the real writer; the reader has no such limit
            let (klen, vlen) = if klen + vlen > 65_000 && !hostile { (klen.min(20), vlen.min(65_000)) } else { (klen, vlen) };
            let status = if hostile && rng.chance(1, 15) { rng.below(256) as u8 } else { rng.below(3) as u8 };
            ops.push(WOp::Kv { key: str_of_len(rng, klen), value: str_of_len(rng, vlen), version: ver, status });
        }
        if nk == 0 && rng.chance(2, 3) {
            ops.push(WOp::SetMax(rng.below(7)));
        } else if hostile && rng.chance(1, 4) {
            ops.push(WOp::SetMax(rng.below(12)));
        }
    }
    if hostile {
        for _ in 0..rng.below(3) {
            let pos = rng.below(ops.len() as u64 + 1) as usize;
            let op = match rng.below(5) {
                0 => WOp::Raw(vec![rng.below(256) as u8]),
                1 => WOp::SetMax(rng.below(9)),
                2 => WOp::Kv { key: vec![0xff, 0xfe], value: vec![], version: 1, status: 0 }, // invalid UTF-8
                3 => WOp::Kv { key: vec![0xed, 0xa0, 0x80], value: vec![0xc0, 0x80], version: 9, status: 0 }, // surrogate, overlong
                _ => {
                    if ops.is_empty() { WOp::SetMax(1) } else { ops[rng.below(ops.len() as u64) as usize].clone() }
                }
            };
            ops.insert(pos, op);
        }
    }
    ops
}

pub async fn gen_wire(sim: &mut Sim, rng: &mut Prng, stats: &mut Stats, name: &str) {
    sim.start_case(name);
    sim.no_events();
    match rng.below(10) {
        0..=2 => {
            // messages emitted by real nodes: encoder correspondence + round trip
            stats.bump("wire_emitted");
            let big = rng.chance(1, 3);
            for i in 0..2 {
                let mut spec = NodeSpec::simple(node_id(i, rng));
                spec.kv_grace_ns = 1_000;
                sim.join(spec);
            }
            for _ in 0..rng.range(1, 8) {
                let n = rng.below(2) as usize;
                let len = if big { pick_len(rng, true) } else { rng.below(30) as usize };
                let ent = rng.below(4);
                let v = sized_value(rng, len, ent);
                sim.set(n, pick_key(rng, true), &v);
                if rng.chance(1, 4) {
                    sim.delete(n, pick_key(rng, true));
                }
                if rng.chance(1, 4) {
                    sim.tick(1_000).await;
                    sim.gc(n);
                }
            }
            let (a, b) = (0usize, 1usize);
            if let Some(syn) = sim.syn(a) {
                sim.wire_check(&syn);
                if let Some(synack) = sim.deliver(b, &syn) {
                    sim.wire_check(&synack);
                    if let Some(ack) = sim.deliver(a, &synack) {
                        sim.wire_check(&ack);
                        sim.deliver(b, &ack);
                    }
                }
            }
            // foreign cluster: BadCluster
            if let Some(rej) = sim.deliver(0, &syn_bytes("other", &[])) {
                sim.wire_check(&rej);
            }
        }
        3..=6 => {
            // independently encoded, well-formed (modulo builder grammar) messages
            stats.bump("wire_crafted");
            let ops = rand_ops(rng, false);
            // tiny blocks only for small payloads (the list-based model decoder is quadratic in the
            // number of blocks)
            let payload: usize = {
                let mut b = Vec::new();
                for op in &ops {
                    crate::util::put_op(&mut b, op);
                }
                b.len()
            };
            let block = if payload > 3_000 { *rng.pick(&[16_384usize, 16_384, 1_000, 4_096, 65_535]) } else { *rng.pick(&[16_384usize, 1, 5, 64, 1000, 65_535]) };
            let compress = rng.chance(1, 2);
            let nd = if rng.chance(1, 40) { rng.range(500, 2000) } else { rng.below(6) } as usize;
            let mut entries: Vec<(WId, u64, u64, u64)> = (0..nd).map(|i| (rand_wid(rng, i), rng.below(9), rng.below(9), rng.below(9))).collect();
            if rng.chance(1, 2) {
                // sorted like a BTreeMap would emit them? not necessarily: the decoder re-sorts
                entries.reverse();
            }
            let bytes = match rng.below(3) {
                0 => syn_bytes(if rng.chance(1, 2) { "c" } else { "" }, &entries),
                1 => synack_bytes(&entries, &ops, block, compress),
                _ => ack_bytes(&ops, block, compress),
            };
            sim.decode(&bytes);
            sim.wire_check(&bytes);
            if rng.chance(1, 6) {
                // one compressible member state of 20-40 kB in a single compressed block: the layout
                // bounds a block by its u16 length, not by the writer's default threshold
                let big: String = "lorem ipsum dolor sit amet ".repeat(rng.range(800, 1500) as usize);
                let ops = vec![
                    WOp::Node { id: rand_wid(rng, 0), gc: 0, from: 0 },
                    WOp::Kv { key: b"big".to_vec(), value: big.into_bytes(), version: 1, status: 0 },
                ];
                let bytes = ack_bytes(&ops, 65_535, true);
                sim.decode_expect_ok(&bytes);
                stats.bump("wire_large_compressed_block");
            }
            if rng.chance(1, 6) {
                // a well-formed message LARGER than a datagram (two incompressible 40,000-byte values,
                // six raw blocks): the codec has no size limit of its own — the datagram budget is the
                // business of whoever computes a reply
                let v1 = high_entropy_string(rng, 40_000);
                let v2 = high_entropy_string(rng, 40_000);
                let ops = vec![
                    WOp::Node { id: rand_wid(rng, 0), gc: 0, from: 0 },
                    WOp::Kv { key: b"v1".to_vec(), value: v1.into_bytes(), version: 1, status: 0 },
                    WOp::Kv { key: b"v2".to_vec(), value: v2.into_bytes(), version: 2, status: 0 },
                ];
                let bytes = ack_bytes(&ops, 16_384, false);
                sim.decode_expect_ok(&bytes);
                stats.bump("wire_larger_than_a_datagram");
            }
            if rng.chance(1, 4) {
                // compressed blocks that do NOT shrink (a few dozen bytes of operations each: the zstd
                // frame is longer than its content): valid streams all the same
                let ops = vec![
                    WOp::Node { id: rand_wid(rng, 0), gc: 0, from: 0 },
                    WOp::Kv { key: b"k".to_vec(), value: high_entropy_string(rng, 20).into_bytes(), version: 1, status: 0 },
                    WOp::Kv { key: b"l".to_vec(), value: high_entropy_string(rng, 40).into_bytes(), version: 2, status: 0 },
                ];
                let mut bytes = Vec::new();
                put_header(&mut bytes, 2);
                crate::util::put_stream_always_compressed(&mut bytes, &ops, *rng.pick(&[16_384usize, 48]));
                sim.decode_expect_ok(&bytes);
                stats.bump("wire_expanding_compressed_blocks");
            }
            if rng.chance(1, 3) {
                // every cut inside the header, the message tag and the first length field
                for n in 0..bytes.len().min(9) {
                    sim.decode(&bytes[..n]);
                }
                stats.bump("wire_all_short_prefixes");
            }
        }
        _ => {
            // malformed / hostile
            stats.bump("wire_malformed");
            let ops = rand_ops(rng, true);
            let entries: Vec<(WId, u64, u64, u64)> = (0..rng.below(4) as usize).map(|i| (rand_wid(rng, i), rng.below(9), rng.below(9), rng.below(9))).collect();
            let payload: usize = {
                let mut b = Vec::new();
                for op in &ops {
                    crate::util::put_op(&mut b, op);
                }
                b.len()
            };
            let block = if payload > 3_000 { 16_384usize } else { *rng.pick(&[16_384usize, 3, 64]) };
            let mut bytes = match rng.below(3) {
                0 => syn_bytes("c", &entries),
                1 => synack_bytes(&entries, &ops, block, rng.chance(1, 2)),
                _ => ack_bytes(&ops, block, rng.chance(1, 2)),
            };
            match rng.below(6) {
                0 => {
                    // truncate
                    // (one time in three: inside the first nine bytes — header, tag, first length)
                    let n = if rng.chance(1, 3) { rng.below(9.min(bytes.len() as u64 + 1)) as usize } else { rng.below(bytes.len() as u64 + 1) as usize };
                    bytes.truncate(n);
                    stats.bump("wire_truncated");
                }
                1 => {
                    // flip bits
                    for _ in 0..rng.range(1, 4) {
                        if !bytes.is_empty() {
                            let i = rng.below(bytes.len() as u64) as usize;
                            bytes[i] ^= 1 << rng.below(8);
                        }
                    }
                    stats.bump("wire_bitflip");
                }
                2 => {
                    // pure noise, sometimes with a valid header
                    let n = rng.below(200) as usize;
                    let mut b: Vec<u8> = (0..n).map(|_| rng.below(256) as u8).collect();
                    if rng.chance(1, 2) && n >= 4 {
                        b[0] = 0x53;
                        b[1] = 0xb0;
                        b[2] = 0;
                        b[3] = rng.below(5) as u8;
                    } else if rng.chance(1, 4) {
                        // a bare header, complete or not
                        b = [0x53u8, 0xb0, 0, rng.below(5) as u8][..rng.range(1, 4) as usize].to_vec();
                    }
                    bytes = b;
                    stats.bump("wire_noise");
                }
                3 => {
                    // trailing garbage
                    bytes.extend_from_slice(&[1, 2, 3]);
                    stats.bump("wire_trailing");
                }
                _ => stats.bump("wire_hostile_ops"),
            }
            sim.decode(&bytes);
            // and feed it to a live node
            let mut spec = NodeSpec::simple(mk_id("r", 0, 3000));
            spec.kv_grace_ns = 1_000;
            sim.join(spec);
            sim.deliver(0, &bytes);
            if rng.chance(1, 4) {
                // a compressed block that is only a zstd frame header declaring an absurd content size
                // (2^63 bytes and more): must be refused like any other undecodable block
                let declared: u64 = *rng.pick(&[1u64 << 63, u64::MAX, (1u64 << 63) + 12345]);
                let mut frame = vec![0x28u8, 0xb5, 0x2f, 0xfd, 0xe0];
                frame.extend_from_slice(&declared.to_le_bytes());
                for tag in [1u8, 2u8] {
                    let mut h = Vec::new();
                    put_header(&mut h, tag);
                    if tag == 1 {
                        put_digest(&mut h, &[]);
                    }
                    h.push(1); // compressed block
                    h.extend_from_slice(&(frame.len() as u16).to_le_bytes());
                    h.extend_from_slice(&frame);
                    h.push(0); // no more blocks
                    sim.decode(&h);
                    sim.deliver(0, &h);
                }
                stats.bump("wire_absurd_frame_size");
            }
        }
    }
}

// ------------------------------------------------------------------------------------------
// S-fd: heartbeat arrival histories (fresh, equal, lower, relayed), evaluations, removal and
// re-creation (C10, C11, C12, C13). All durations are multiples of 1,953,125 ns = 2^-9 s so
// that the implementation's f64 arithmetic on seconds is exact.
const UNIT: u64 = 1_953_125;

pub async fn gen_fd(sim: &mut Sim, rng: &mut Prng, stats: &mut Stats, name: &str) {
    sim.start_case(name);
    let mut spec = NodeSpec::simple(mk_id("r", 8, 6000));
    let (pn, pd) = *rng.pick(&[(1i64, 2i64), (1, 1), (2, 1), (8, 1), (16, 1), (3, 2), (5, 1)]);
    spec.phi_num = pn;
    spec.phi_den = pd;
    spec.window = *rng.pick(&[1usize, 2, 3, 10, 1000]);
    spec.initial_interval_ns = UNIT * *rng.pick(&[64u64, 256, 512, 2560]);
    spec.max_interval_ns = UNIT * *rng.pick(&[256u64, 512, 5120]);
    spec.dead_grace_ns = UNIT * 2048 * *rng.pick(&[1u64, 4, 64]);
    spec.kv_grace_ns = 1_000_000;
    if rng.chance(1, 3) {
        spec.pred = Pred::MaxEven;
    }
    let empty_mem = rng.chance(1, 7);
    if empty_mem {
        spec.pred = Pred::ValEq("a".to_string(), "x".to_string());
    }
    // a member wraps its sampling window, is declared dead (window reset), comes back with a faster
    // cadence and falls silent again
    let wrap = !empty_mem && rng.chance(1, 7);
    if wrap {
        spec.phi_num = 8;
        spec.phi_den = 1;
        spec.window = *rng.pick(&[2usize, 3]);
        spec.initial_interval_ns = UNIT * 256;
        spec.max_interval_ns = UNIT * 5120;
        stats.bump("fd_cases_window_wraps_then_comeback");
    }
    // a cadence just above max_interval: every interval must be discarded as a sample, so the
    // member never becomes live; then a silence just above phi_threshold * max_interval
    let over_max = rng.chance(1, 8);
    if over_max {
        spec.phi_num = 8;
        spec.phi_den = 1;
        spec.window = 1000;
        spec.initial_interval_ns = UNIT * 256;
        spec.max_interval_ns = UNIT * 256;
        stats.bump("fd_cases_cadence_just_over_max_interval");
    }
    let dead_grace = spec.dead_grace_ns;
    let max_iv = spec.max_interval_ns;
    sim.join(spec);
    if wrap && !over_max {
        let x = wid_of(&mk_id("x", 0, 6001));
        let mut h = 0u64;
        for _ in 0..8 {
            h += 1;
            sim.deliver(0, &syn_bytes("c", &[(x.clone(), h, 0, 0)]));
            sim.tick(UNIT * 1024).await; // 2 s cadence
        }
        sim.eval(0);
        sim.tick(UNIT * 512 * 40).await; // 40 s of silence
        sim.eval(0);
        for _ in 0..6 {
            h += 1;
            sim.deliver(0, &syn_bytes("c", &[(x.clone(), h, 0, 0)]));
            sim.tick(UNIT * 128).await; // 0.25 s cadence
            sim.eval(0);
        }
        sim.tick(UNIT * 512 * 90).await; // 90 s of silence: beyond 8 * 10 s
        sim.eval(0);
    }
    if empty_mem && !over_max {
        // empty membership: with a predicate only the node itself can satisfy, make it true, evaluate,
        // make it false, evaluate: the channel must be told that nobody is left
        stats.bump("fd_cases_membership_becomes_empty");
        sim.set(0, "a", "x");
        sim.eval(0);
        if rng.chance(1, 2) {
            sim.delete(0, "a");
        } else {
            sim.set(0, "a", "other");
        }
        sim.eval(0);
        sim.eval(0);
    }
    if over_max {
        let x = wid_of(&mk_id("x", 0, 6001));
        for h in 1..=30u64 {
            sim.deliver(0, &syn_bytes("c", &[(x.clone(), h, 0, 0)]));
            sim.tick(max_iv + UNIT * 8).await;
            if h % 5 == 0 {
                sim.eval(0);
            }
        }
        sim.tick(7 * max_iv).await;
        sim.eval(0);
    }
    // x, y: ordinary peers; the third is a previous incarnation of the receiver itself (same
    // node id and address, older generation), as seen after a restart
    let members = [mk_id("x", 0, 6001), mk_id("y", 3, 6002), mk_id("r", 7, 6000)];
    let wids: Vec<WId> = members.iter().map(wid_of).collect();
    let mut hb = [if over_max { 30u64 } else if wrap { 14u64 } else { 0u64 }, 0u64, 0u64];
    let steady = rng.chance(1, 3);
    let steady_dt = UNIT * *rng.pick(&[16u64, 64, 256]);
    let nops = rng.range(8, 60);
    for _ in 0..nops {
        if sim.dead_case {
            break;
        }
        match rng.below(100) {
            0..=44 => {
                // a digest carrying heartbeats for x and/or y
                let mut entries = Vec::new();
                for (i, w) in wids.iter().enumerate() {
                    if rng.chance(2, 3) {
                        let v = match rng.below(10) {
                            0 => hb[i],                       // equal (duplicate / relay)
                            1 => hb[i].saturating_sub(1 + rng.below(3)), // lower (stale relay)
                            2 => hb[i] + 5,
                            _ => hb[i] + 1,
                        };
                        if v > hb[i] {
                            hb[i] = v;
                            stats.bump("hb_fresh_or_first");
                        } else {
                            stats.bump("hb_stale");
                        }
                        entries.push((w.clone(), v, 0, 0));
                    }
                }
                sim.deliver(0, &syn_bytes("c", &entries));
            }
            45..=74 => {
                let dt = if steady {
                    steady_dt
                } else {
                    UNIT * *rng.pick(&[1u64, 16, 64, 256, 512, 1024, 5120, 51200])
                };
                sim.tick(dt).await;
            }
            75..=79 => {
                // long silences around the removal boundaries
                let dt = *rng.pick(&[dead_grace / 2, dead_grace / 2 + UNIT, dead_grace, dead_grace + UNIT, max_iv, max_iv + UNIT]);
                sim.tick(dt).await;
                stats.bump("tick_long");
            }
            80..=89 => {
                sim.eval(0);
                stats.bump("op_eval");
            }
            90..=95 => {
                // data for a (possibly live) member: an incremental delta raising its max version,
                // or a reset delta (higher watermark, from 0) that may LOWER its max version
                let mi = rng.below(2) as usize;
                let cur = sim.nodes[0].chitchat.node_state(&members[mi]).map(|ns| (ns.last_gc_version(), ns.max_version()));
                if let Some((gc, mx)) = cur {
                    let reset = rng.chance(1, 2);
                    let ops = if reset {
                        let ngc = gc.max(mx) + 1 + rng.below(3);
                        // strictly below the current max version when there is room
                        let v = if mx >= 2 { 1 + rng.below(mx - 1) } else { 1 };
                        stats.bump("fd_reset_delta");
                        vec![
                            WOp::Node { id: wids[mi].clone(), gc: ngc, from: 0 },
                            WOp::Kv { key: b"a".to_vec(), value: b"x".to_vec(), version: v, status: 0 },
                        ]
                    } else {
                        stats.bump("fd_incremental_delta");
                        vec![
                            WOp::Node { id: wids[mi].clone(), gc, from: mx },
                            WOp::Kv { key: b"a".to_vec(), value: b"y".to_vec(), version: mx + 1 + rng.below(5), status: rng.below(3) as u8 },
                        ]
                    };
                    sim.deliver(0, &ack_bytes(&ops, 16384, false));
                }
            }
            96..=97 => {
                // every member falls silent, is found dead, is removed after the grace period; then
                // lagging relays replay an increasing ladder of heartbeats that are all LOWER than
                // the last one observed, with evaluations: nobody may come back
                sim.eval(0);
                sim.tick(dead_grace + UNIT).await;
                sim.eval(0);
                sim.tick(dead_grace + UNIT).await;
                sim.eval(0);
                let mi = rng.below(2) as usize;
                if hb[mi] >= 8 {
                    for back in [6u64, 4, 2] {
                        sim.tick(UNIT * 16).await;
                        sim.deliver(0, &syn_bytes("c", &[(wids[mi].clone(), hb[mi] - back, 0, 0)]));
                        sim.eval(0);
                    }
                    stats.bump("fd_stale_ladder_after_removal");
                }
            }
            99..=99 => {
                // a strictly steady run of fresh heartbeats (one every 64 units, well within
                // max_interval), an evaluation, then — sometimes — a catch-up half an interval after
                // the last heartbeat, and another evaluation: the member must be live at both
                let mi = rng.below(2) as usize;
                let dt = UNIT * 64;
                for _ in 0..rng.range(4, 7) {
                    sim.tick(dt).await;
                    hb[mi] += 1;
                    sim.deliver(0, &syn_bytes("c", &[(wids[mi].clone(), hb[mi], 0, 0)]));
                }
                sim.eval(0);
                sim.tick(dt).await;
                hb[mi] += 1;
                sim.deliver(0, &syn_bytes("c", &[(wids[mi].clone(), hb[mi], 0, 0)]));
                sim.tick(dt / 2).await;
                if rng.chance(2, 3) {
                    let cur = sim.nodes[0].chitchat.node_state(&members[mi]).map(|ns| (ns.last_gc_version(), ns.max_version()));
                    if let Some((gc, mx)) = cur {
                        let nmx = mx.max(gc) + 1;
                        sim.catchup(0, &members[mi], &[("a".to_string(), "s".to_string(), nmx, 0)], nmx, gc);
                    }
                }
                sim.eval(0);
                stats.bump("fd_steady_run");
            }
            98..=98 => {
                // an accepted external catch-up for a member: it carries no heartbeat information and
                // must leave the member's classification at the next evaluation as it would have been
                let mi = rng.below(2) as usize;
                let cur = sim.nodes[0].chitchat.node_state(&members[mi]).map(|ns| (ns.last_gc_version(), ns.max_version()));
                if let Some((gc, mx)) = cur {
                    let nmx = mx.max(gc) + 1 + rng.below(3);
                    sim.catchup(0, &members[mi], &[("a".to_string(), "z".to_string(), nmx, 0)], nmx, gc);
                    if rng.chance(1, 2) {
                        sim.eval(0);
                    }
                    stats.bump("fd_catchup");
                }
            }
            _ => {
                sim.syn(0);
            }
        }
    }
    sim.eval(0);
    if !sim.dead_case && rng.chance(1, 4) {
        // a member seen alive up to heartbeat 10 goes silent; relays keep mentioning it with
        // heartbeat 0 (a peer that knows it only through a catch-up), 9 (a lagging peer) and 10 (an
        // up-to-date one), over and over: none of these is evidence, and after more than
        // phi_threshold * max(max_interval, initial_interval) it must be reported dead
        stats.bump("fd_zero_stale_top_relays");
        let z = wid_of(&mk_id("zr", 0, 6009));
        let step = max_iv / 5;
        for h in 1..=10u64 {
            sim.deliver(0, &syn_bytes("c", &[(z.clone(), h, 0, 0)]));
            sim.tick(step).await;
        }
        sim.eval(0);
        for _ in 0..60 {
            for h in [0u64, 9, 10] {
                sim.deliver(0, &syn_bytes("c", &[(z.clone(), h, 0, 0)]));
            }
            sim.tick(step).await;
            sim.eval(0);
        }
    }
}

// ------------------------------------------------------------------------------------------
// S-listen: subscriptions (C15). Alphabet {a, b, é (2 bytes), 𝄞 (4 bytes)}, strings of length <= 3.
fn alpha_string(rng: &mut Prng, max_len: u64) -> String {
    let alpha = ['a', 'b', '\u{e9}', '\u{1d11e}'];
    let n = rng.below(max_len + 1);
    (0..n).map(|_| *rng.pick(&alpha)).collect()
}

pub async fn gen_listen(sim: &mut Sim, rng: &mut Prng, stats: &mut Stats, name: &str) {
    sim.start_case(name);
    sim.no_events();
    for i in 0..2 {
        let mut spec = NodeSpec::simple(mk_id(["a", "b"][i], 0, 7000 + i as u16));
        spec.kv_grace_ns = 1_000;
        sim.join(spec);
    }
    let mut next_lid = 1u64;
    let nops = rng.range(6, 40);
    for _ in 0..nops {
        if sim.dead_case {
            break;
        }
        let n = rng.below(2) as usize;
        match rng.below(100) {
            0..=24 => {
                if sim.nodes[n].subs.len() < 8 {
                    let p = alpha_string(rng, 3);
                    let forever = rng.chance(1, 4);
                    sim.subscribe(n, next_lid, &p, forever);
                    next_lid += 1;
                    stats.bump(if p.is_empty() { "sub_empty_prefix" } else { "sub_prefix" });
                }
            }
            25..=34 => {
                if !sim.nodes[n].subs.is_empty() {
                    let i = rng.below(sim.nodes[n].subs.len() as u64) as usize;
                    let lid = sim.nodes[n].subs[i].0;
                    sim.drop_listener(n, lid);
                    stats.bump("drop_handle");
                }
            }
            35..=59 => {
                let k = alpha_string(rng, 3);
                let v = alpha_string(rng, 2);
                sim.set(n, &k, &v);
                sim.calls(n);
                stats.bump(if k.is_empty() { "set_empty_key" } else { "set_key" });
            }
            60..=66 => {
                let k = alpha_string(rng, 3);
                sim.set_with_ttl(n, &k, "t");
                sim.calls(n);
            }
            67..=74 => {
                let k = alpha_string(rng, 2);
                if rng.chance(1, 2) {
                    sim.delete(n, &k);
                } else {
                    sim.delete_after_ttl(n, &k);
                }
                sim.calls(n);
                stats.bump("delete");
            }
            75..=92 => {
                // replicated writes: handshake n -> m, listeners of both sides may fire
                let m = 1 - n;
                if let Some(syn) = sim.syn(n) {
                    if let Some(synack) = sim.deliver(m, &syn) {
                        if let Some(ack) = sim.deliver(n, &synack) {
                            sim.deliver(m, &ack);
                        }
                    }
                }
                sim.calls(0);
                sim.calls(1);
                stats.bump("handshake");
            }
            93..=94 | 98..=98 => {
                // nested and sibling prefixes around one key: x, xxx (longer than the key, not a prefix
                // of it), xy (the key itself) and the empty prefix; then the key xy is written
                let alphabet = ["a", "b", "é", "𝄞"];
                let x = *rng.pick(&alphabet);
                let y = *rng.pick(&alphabet);
                for p in [x.to_string(), format!("{x}{x}{x}"), format!("{x}{y}"), String::new()] {
                    if sim.nodes[n].subs.len() < 12 {
                        sim.subscribe(n, next_lid, &p, true);
                        next_lid += 1;
                    }
                }
                sim.set(n, &format!("{x}{y}"), "v");
                sim.calls(n);
                stats.bump("nested_prefixes");
                // the same prefix subscribed twice, the FIRST handle dropped, a third subscription on
                // it, then a matching write: the second and the third must both be called
                if sim.nodes[n].subs.len() + 3 <= 16 {
                    let p = x.to_string();
                    let first = next_lid;
                    sim.subscribe(n, first, &p, false);
                    sim.subscribe(n, first + 1, &p, false);
                    sim.drop_listener(n, first);
                    sim.subscribe(n, first + 2, &p, false);
                    next_lid += 3;
                    sim.set(n, &format!("{x}{y}{y}"), "w");
                    sim.calls(n);
                    stats.bump("resubscribe_after_drop");
                }
                // a deleted key made visible again by a TTL write of the EMPTY value (the tombstone's
                // stored value is empty too): every matching subscription fires
                let k2 = format!("{x}{y}{x}");
                sim.set(n, &k2, "v");
                sim.delete(n, &k2);
                sim.set_with_ttl(n, &k2, "");
                sim.calls(n);
            }
            95..=97 => {
                // external catch-up on the peer: the fetched state repeats what n already holds
                // (same versions: no listener may fire for those) and adds newer keys
                let m = 1 - n;
                let mid = sim.nodes[m].spec.id.clone();
                let (mut kvs, cur_max): (Vec<(String, String, u64, u8)>, u64) = match sim.nodes[n].chitchat.node_state(&mid) {
                    Some(ns) => (
                        ns.key_values_including_deleted()
                            .map(|(k, vv)| {
                                let st = match vv.status {
                                    DeletionStatus::Set => 0u8,
                                    DeletionStatus::Deleted(_) => 1,
                                    DeletionStatus::DeleteAfterTtl(_) => 2,
                                };
                                (k.to_string(), vv.value.clone(), vv.version, st)
                            })
                            .collect(),
                        ns.max_version(),
                    ),
                    None => (Vec::new(), 0),
                };
                let mut ver = cur_max;
                for _ in 0..rng.range(1, 3) {
                    ver += 1;
                    let k = alpha_string(rng, 3);
                    if kvs.iter().all(|(k0, _, _, _)| *k0 != k) {
                        kvs.push((k, alpha_string(rng, 2), ver, 0));
                    }
                }
                sim.catchup(n, &mid, &kvs, ver, 0);
                sim.calls(n);
                stats.bump("catchup_with_listeners");
            }
            _ => {
                sim.tick(1_000).await;
                sim.gc(n);
            }
        }
    }
}

// ------------------------------------------------------------------------------------------
// S-select: peer selection with a scripted random generator (C17).
struct ScriptRng {
    u64_script: Vec<u64>,
    pos: usize,
    inner: Prng,
    pub n_u64: usize,
}

impl rand::TryRng for ScriptRng {
    type Error = std::convert::Infallible;
    fn try_next_u32(&mut self) -> Result<u32, Self::Error> {
        Ok(self.inner.next_u64() as u32)
    }
    fn try_next_u64(&mut self) -> Result<u64, Self::Error> {
        let v = if self.pos < self.u64_script.len() { self.u64_script[self.pos] } else { self.inner.next_u64() };
        self.pos += 1;
        self.n_u64 += 1;
        Ok(v)
    }
    fn try_fill_bytes(&mut self, dest: &mut [u8]) -> Result<(), Self::Error> {
        for b in dest.iter_mut() {
            *b = self.inner.next_u64() as u8;
        }
        Ok(())
    }
}

fn addr_tok(a: &std::net::SocketAddr) -> String {
    match a.ip() {
        std::net::IpAddr::V4(ip) => format!("4.{}.{}", u32::from(ip), a.port()),
        std::net::IpAddr::V6(ip) => format!("6.{}.{}", u128::from(ip), a.port()),
    }
}

pub async fn gen_select(sim: &mut Sim, rng: &mut Prng, stats: &mut Stats, name: &str) {
    use std::collections::HashSet;
    use std::net::SocketAddr;
    sim.start_case(name);
    let universe: Vec<SocketAddr> = (0..8u8).map(|k| SocketAddr::from(([10, 0, 0, k + 1], 1000 + k as u16))).collect();
    for _ in 0..40 {
        let subset = |rng: &mut Prng, max: u64| -> Vec<SocketAddr> {
            let n = rng.below(max + 1);
            let mut v = Vec::new();
            for a in &universe {
                if (v.len() as u64) < n && rng.chance(1, 2) {
                    v.push(*a);
                }
            }
            v
        };
        let live = subset(rng, 6);
        // peers is a superset of live and dead in the server; exercise arbitrary sets too
        let dead = subset(rng, 6);
        let mut peers = subset(rng, 6);
        if rng.chance(2, 3) {
            for a in live.iter().chain(dead.iter()) {
                if !peers.contains(a) {
                    peers.push(*a);
                }
            }
        }
        let seeds = subset(rng, 3);
        let extreme = [0u64, 1 << 11, u64::MAX, 1 << 63, (1 << 63) - 1, u64::MAX - (1 << 11)];
        let d1 = if rng.chance(1, 2) { *rng.pick(&extreme) } else { rng.next_u64() };
        let d2 = if rng.chance(1, 2) { *rng.pick(&extreme) } else { rng.next_u64() };
        let mut srng = ScriptRng { u64_script: vec![d1, d2], pos: 0, inner: rng.fork(), n_u64: 0 };
        let (nodes, dead_opt, seed_opt) = chitchat::verif::verif_select_nodes_for_gossip(
            &mut srng,
            peers.iter().cloned().collect::<HashSet<_>>(),
            live.iter().cloned().collect::<HashSet<_>>(),
            dead.iter().cloned().collect::<HashSet<_>>(),
            seeds.iter().cloned().collect::<HashSet<_>>(),
        );
        let list = |tag: &str, v: &[SocketAddr]| -> String {
            let mut s = format!("{} {}", tag, v.len());
            for a in v {
                s.push(' ');
                s.push_str(&addr_tok(a));
            }
            s
        };
        let opt = |o: &Option<SocketAddr>| o.map(|a| addr_tok(&a)).unwrap_or("none".to_string());
        let op = format!(
            "SELECT {} {} {} {} {} DRAWS 2 {} {} DEADPICK {} SEEDPICK {}",
            list("P", &peers),
            list("L", &live),
            list("D", &dead),
            list("S", &seeds),
            list("SAMPLE", &nodes),
            d1 >> 11,
            d2 >> 11,
            opt(&dead_opt),
            opt(&seed_opt)
        );
        let obs = format!("valid 1 dead {} seed {} draws {}", dead_opt.is_some() as u8, seed_opt.is_some() as u8, srng.n_u64);
        sim.raw_record(&op, &obs);
        stats.bump("selections");
        if live.is_empty() && !seeds.is_empty() {
            stats.bump("select_isolated_with_seed");
        }
        if dead.len() > live.len() {
            stats.bump("select_dead_outnumber_live");
        }
    }
}


// ------------------------------------------------------------------------------------------
// S-kf1: the known finding KF-1 (C02) replayed on the implementation, with variations: the owner
// writes some keys, a peer B syncs, the owner deletes one (or marks it with a TTL) and collects
// the tombstone after the grace period, a fresh node C syncs with the owner, then with the stale
// B (the weak acceptance), then with the owner again; optionally a further fresh node D syncs
// with C (the resurrected key is relayed).
// A reply filled to the datagram limit so that, after the sender's own (unknown to the peer, hence
// first) member, the HEADER of the next stale member no longer fits although one of its small
// key-values would: the delta must end there.  S owns a ~64 kB incompressible value; X (long id)
// has five small keys of which the peer B already knows four; B asks S.  The value's length is
// found by bisection on throwaway simulations (same code, nothing recorded): the smallest length
// for which S's answer no longer names X.  Then the history goes on: B answers, B and S gossip
// again (a copy of S that looked ahead of S would now be sent back to S), X and B gossip.
fn header_boundary_prefix(sim: &mut Sim, xname: &str, big: &str, grace: u64) -> Option<Vec<u8>> {
    let mk = |id: ChitchatId| {
        let mut s = NodeSpec::simple(id);
        s.kv_grace_ns = grace;
        s
    };
    sim.join(mk(mk_id("s", 0, 2000)));
    sim.join(mk(mk_id(xname, 0, 2001)));
    sim.join(mk(mk_id("b", 0, 2002)));
    sim.set(0, "g", big);
    sim.set(0, "a", "x");
    for i in 0..4 {
        sim.set(1, &format!("k{i}"), "v");
    }
    full_handshake(sim, 2, 1); // B knows X up to version 4
    sim.set(1, "k4", "");
    full_handshake(sim, 0, 1); // S knows all of X
    let syn = sim.syn(2)?;
    sim.deliver(0, &syn)
}

fn reply_node_count(bytes: &[u8]) -> usize {
    let mut buf = bytes;
    match ChitchatMessage::deserialize(&mut buf) {
        Ok(m) => crate::sim::reply_order_and_len(&verif_dump_message(&m)).0.len(),
        Err(_) => 0,
    }
}

async fn gen_proc_header_boundary(sim: &mut Sim, rng: &mut Prng, stats: &mut Stats, name: &str) {
    let grace: u64 = 1_000_000;
    let xname: String = format!("x{}", "y".repeat(rng.range(60, 160) as usize));
    let pool = high_entropy_string(rng, 65_600);
    // prefix of `pool` cut at a character boundary at or below `n` bytes
    let cut = |n: usize| -> &str {
        let mut n = n.min(pool.len());
        while !pool.is_char_boundary(n) {
            n -= 1;
        }
        &pool[..n]
    };
    // bisection: lo = a length for which X is still named, hi = one for which it is not
    let (mut lo, mut hi) = (60_000usize, 65_550usize);
    let probe = |len: usize| -> usize {
        let mut p = Sim::new();
        p.start_case("probe");
        p.no_events();
        header_boundary_prefix(&mut p, &xname, cut(len), grace).map(|r| reply_node_count(&r)).unwrap_or(0)
    };
    if probe(lo) < 2 || probe(hi) >= 2 {
        // unexpected sizes (should not happen): fall back to an ordinary case
        stats.bump("header_boundary_not_found");
        return gen_proc(sim, rng, stats, name).await;
    }
    while hi - lo > 1 {
        let mid = (lo + hi) / 2;
        if probe(mid) >= 2 { lo = mid } else { hi = mid }
    }
    // `hi` = smallest length whose answer leaves X out; a little more still leaves room for a key-value
    let len = hi + rng.below(30) as usize;
    sim.start_case(name);
    sim.no_events();
    stats.bump("cases_header_boundary");
    let synack = header_boundary_prefix(sim, &xname, cut(len), grace);
    if let Some(synack) = synack {
        if let Some(ack) = sim.deliver(2, &synack) {
            sim.deliver(0, &ack);
        }
    }
    // B's copy of S goes back to S, twice, and around
    full_handshake(sim, 2, 0);
    full_handshake(sim, 0, 2);
    full_handshake(sim, 1, 2);
    full_handshake(sim, 2, 0);
}

// Two owners whose newest versions were deletions that everybody has collected; a relay that holds
// both; a node that was away: its first handshake with the relay resets both copies, the second
// one has nothing to carry but TWO max versions (SetMaxVersion-only node deltas for two known
// members in one reply).  Each copy must end at ITS owner's max version.
async fn gen_proc_two_setmax_only(sim: &mut Sim, rng: &mut Prng, stats: &mut Stats, name: &str) {
    sim.start_case(name);
    sim.no_events();
    let kv_grace: u64 = 1_000_000;
    let mk = |nm: &str, port: u16| {
        let mut s = NodeSpec::simple(mk_id(nm, 0, port));
        s.kv_grace_ns = kv_grace;
        s
    };
    // the member that comes first in id order is sometimes the more advanced one, sometimes not
    let (nx, ny) = if rng.chance(1, 2) { ("m1", "m2") } else { ("m2", "m1") };
    let x = sim.join(mk(nx, 2201));
    let y = sim.join(mk(ny, 2202));
    let s = sim.join(mk("relay", 2203));
    let p = sim.join(mk("away", 2204));
    sim.set(x, "xa", "1");
    sim.set(y, "ya", "1");
    full_handshake(sim, p, x);
    full_handshake(sim, p, y);
    full_handshake(sim, p, s);
    let nx_extra = rng.range(2, 4);
    for i in 0..nx_extra {
        sim.set(x, &format!("xt{i}"), "v");
    }
    for i in 0..nx_extra {
        sim.delete(x, &format!("xt{i}"));
    }
    sim.set(y, "yt", "v");
    sim.delete(y, "yt");
    for _ in 0..2 {
        full_handshake(sim, s, x);
        full_handshake(sim, s, y);
    }
    sim.tick(kv_grace + 1).await;
    for n in [x, y, s, p] {
        sim.gc(n);
    }
    full_handshake(sim, p, s); // both copies reset
    full_handshake(sim, p, s); // only the two max versions are left to send
    full_handshake(sim, p, y);
    full_handshake(sim, p, x);
    full_handshake(sim, s, p);
    full_handshake(sim, s, y);
    stats.bump("cases_two_setmax_only");
}

// Round 13 (C02m): a copy left mid-reset by a reply the datagram limit cut (watermark W above its
// max version) is offered, through the external catch-up, what a STALE peer holds about the owner:
// max version strictly between the copy's and W, still listing a key whose delete the owner has
// collected.  The snapshot is obsolete and must change nothing; gossip then completes the copy.
async fn gen_proc_stale_catchup_mid_reset(sim: &mut Sim, rng: &mut Prng, stats: &mut Stats, name: &str) {
    sim.start_case(name);
    sim.no_events();
    let kv_grace: u64 = 1_000_000;
    let mk = |nm: &str, port: u16| {
        let mut s = NodeSpec::simple(mk_id(nm, 0, port));
        s.kv_grace_ns = kv_grace;
        s
    };
    let x = sim.join(mk("owner", 2211));
    let n = sim.join(mk("lagging", 2212));
    let m = sim.join(mk("stale", 2213));
    let b_len = rng.range(28_000, 32_000) as usize;
    let big_len = rng.range(38_000, 42_000) as usize;
    let b_val = high_entropy_string(rng, b_len);
    let big_val = high_entropy_string(rng, big_len);
    sim.set(x, "a", "1");
    sim.set(x, "b", &b_val);
    full_handshake(sim, n, x); // n: a@1 b@2
    sim.set(x, "big", &big_val);
    sim.set(x, "d", "4");
    for _ in 0..3 {
        full_handshake(sim, m, x); // m: a b big d, max 4
    }
    sim.delete(x, "a"); // @5
    let extra = rng.below(3);
    for i in 0..extra {
        sim.set(x, &format!("e{i}"), "v");
    }
    sim.tick(kv_grace + 1).await;
    sim.gc(x); // watermark 5
    full_handshake(sim, n, x); // reset cut after b@2: n at (5, 2)
    let xid = sim.nodes[x].spec.id.clone();
    let fetched = sim.nodes[m].chitchat.node_state(&xid).map(|ns| {
        let kvs: Vec<(String, String, u64, u8)> = ns
            .key_values_including_deleted()
            .map(|(k, vv)| {
                let st = match vv.status {
                    DeletionStatus::Set => 0u8,
                    DeletionStatus::Deleted(_) => 1,
                    DeletionStatus::DeleteAfterTtl(_) => 2,
                };
                (k.to_string(), vv.value.clone(), vv.version, st)
            })
            .collect();
        (kvs, ns.max_version(), ns.last_gc_version())
    });
    if let Some((kvs, mx, gc)) = fetched {
        sim.raw_record(&format!("HONEST {m}"), "ok");
        sim.catchup(n, &xid, &kvs, mx, gc);
    }
    for _ in 0..3 {
        full_handshake(sim, n, x);
    }
    full_handshake(sim, m, n);
    stats.bump("cases_stale_catchup_mid_reset");
}

fn full_handshake(sim: &mut Sim, a: usize, b: usize) {
    if let Some(syn) = sim.syn(a) {
        if let Some(synack) = sim.deliver(b, &syn) {
            if let Some(ack) = sim.deliver(a, &synack) {
                sim.deliver(b, &ack);
            }
        }
    }
}

async fn gen_kf1(sim: &mut Sim, rng: &mut Prng, stats: &mut Stats, name: &str) {
    sim.start_case(name);
    let grace: u64 = *rng.pick(&[1_000u64, 1_000_000, 1_000_000_000]);
    let mk = |nm: &str, port: u16| {
        let mut s = NodeSpec::simple(mk_id(nm, 0, port));
        s.kv_grace_ns = grace;
        s
    };
    sim.join(mk("a", 3000));
    let nkeys = rng.range(2, 5) as usize;
    let keys: Vec<String> = (0..nkeys).map(|i| format!("k{i}")).collect();
    for (i, k) in keys.iter().enumerate() {
        sim.set(0, k, &format!("v{i}"));
    }
    // the deleted key must not be the first one written: the fresh copy needs max_version >= 1
    // KF-1 needs the victim's version above every surviving key's; otherwise the history is benign
    let victim = if rng.chance(3, 4) { nkeys - 1 } else { rng.range(1, nkeys as u64 - 1) as usize };
    sim.join(mk("b", 3001));
    full_handshake(sim, 1, 0);
    if rng.chance(1, 2) {
        sim.delete(0, &keys[victim]);
        stats.bump("kf1_delete");
    } else {
        sim.delete_after_ttl(0, &keys[victim]);
        stats.bump("kf1_delete_ttl");
    }
    sim.tick(grace + rng.range(0, 5)).await;
    sim.gc(0);
    sim.join(mk("c", 3002));
    full_handshake(sim, 2, 0);
    full_handshake(sim, 2, 1);
    full_handshake(sim, 2, 0);
    if rng.chance(1, 2) {
        sim.join(mk("d", 3003));
        full_handshake(sim, 3, 2);
        stats.bump("kf1_relayed");
    }
    stats.bump("kf1_histories");
}


// ------------------------------------------------------------------------------------------
// S-conv (C01): an arbitrary history (writes, deletes, TTL, GC, clock, lost / duplicated /
// reordered messages, partial handshakes, late joins, MTU-forcing values, sometimes liveness
// evaluation), then writes stop, the clock is frozen and fair rounds of loss-free complete
// handshakes (every ordered pair once per round) run until the implementation has converged.
// A dead member D is quarantined at the replica R (dead there for more than half the grace period)
// but not yet at the owner O (which found it dead later); O's newest version is a tombstone that O
// alone has collected, and R has already been reset: all R still needs from O is the SetMaxVersion
// of O's own member — in the same delta in which O, every time, offers D's keys that R discards.
// Small payloads: nothing is cut by the datagram limit.  A complete handshake R <-> O must advance
// R's copy of O.
async fn gen_conv_quarantine_and_setmax(sim: &mut Sim, rng: &mut Prng, stats: &mut Stats, name: &str) {
    sim.start_case(name);
    let kv_grace: u64 = 1_000_000;
    let dead_grace: u64 = 3_906_250_000u64 * 64; // 250 s
    let mk = |nm: &str, port: u16| {
        let mut s = NodeSpec::simple(mk_id(nm, 0, port));
        s.kv_grace_ns = kv_grace;
        s.dead_grace_ns = dead_grace;
        s
    };
    let o = sim.join(mk("o", 2100));
    let r = sim.join(mk("r", 2101));
    let d = sim.join(mk("d", 2102));
    sim.set(d, "d1", "x");
    sim.set(d, "d2", "y");
    sim.set(o, "t1", "x");
    sim.set(o, "t2", "y");
    // everybody learns everybody's state; O and R exchange heartbeats one second apart so that they
    // see each other alive; D says nothing more
    full_handshake(sim, o, d);
    full_handshake(sim, r, d);
    for _ in 0..rng.range(3, 5) {
        full_handshake(sim, r, o);
        sim.tick(1_000_000_000).await;
        sim.heartbeat(o);
        sim.heartbeat(r);
    }
    full_handshake(sim, r, o);
    sim.eval(r); // D dead at R from now on
    sim.delete(o, "t2");
    sim.tick(dead_grace / 2 + 1_000_000_000).await; // D is now quarantined at R; the tombstone is collectable
    sim.gc(o);
    sim.eval(o); // D dead at O only from now on: not quarantined there
    let r_ok = {
        let cc = &sim.nodes[r].chitchat;
        let oid = sim.nodes[o].chitchat.self_chitchat_id().clone();
        let did = sim.nodes[d].chitchat.self_chitchat_id().clone();
        cc.live_nodes().any(|i| *i == oid) && cc.dead_nodes().any(|i| *i == did)
    };
    if !r_ok {
        stats.bump("conv_quarantine_setmax_not_set_up");
        return;
    }
    stats.bump("conv_cases_quarantine_and_setmax");
    marked_handshake(sim, r, o); // the reset: R's copy of O goes to (watermark 3, max 1)
    marked_handshake(sim, r, o); // all that is left is O's SetMaxVersion
    marked_handshake(sim, o, r);
}

fn marked_handshake(sim: &mut Sim, a: usize, b: usize) {
    sim.raw_record(&format!("HS {a} {b}"), "ok");
    full_handshake(sim, a, b);
    sim.raw_record(&format!("HSEND {a} {b}"), "ok");
}

fn impl_converged(sim: &Sim) -> bool {
    let n = sim.nodes.len();
    for a in 0..n {
        for b in 0..n {
            let owner = sim.nodes[b].chitchat.self_chitchat_id().clone();
            let owner_max = sim.nodes[b].chitchat.node_state(&owner).map(|s| s.max_version()).unwrap_or(0);
            let seen = sim.nodes[a].chitchat.node_state(&owner).map(|s| s.max_version());
            match seen {
                Some(m) if m == owner_max => {}
                None if owner_max == 0 => {}
                _ => return false,
            }
        }
    }
    true
}

fn impl_frontiers(sim: &Sim) -> Vec<(usize, String, u64, u64)> {
    let mut v = Vec::new();
    for (a, nd) in sim.nodes.iter().enumerate() {
        for (id, st) in nd.chitchat.node_states() {
            v.push((a, format!("{id:?}"), st.last_gc_version(), st.max_version()));
        }
    }
    v.sort();
    v
}

async fn gen_conv(sim: &mut Sim, rng: &mut Prng, stats: &mut Stats, name: &str) {
    sim.start_case(name);
    let n_nodes = rng.range(2, 5) as usize;
    let kv_grace: u64 = 1_000_000;
    let dead_grace: u64 = 3_906_250_000u64 * 64;
    let big_mode = rng.chance(1, 5);
    let eval_mode = rng.chance(1, 4);
    let allow_mb = mb_keys_enabled();
    let mut pool: Vec<Vec<u8>> = Vec::new();
    let join = |sim: &mut Sim, rng: &mut Prng, i: usize| {
        let mut spec = NodeSpec::simple(node_id(i, rng));
        spec.kv_grace_ns = kv_grace;
        spec.dead_grace_ns = dead_grace;
        if rng.chance(1, 3) {
            spec.initial = vec![("a".to_string(), "x".to_string())];
        }
        sim.join(spec)
    };
    let initial_nodes = if rng.chance(1, 3) { n_nodes - 1 } else { n_nodes };
    for i in 0..initial_nodes {
        join(sim, rng, i);
    }
    if big_mode {
        stats.bump("conv_cases_big_values");
    }
    if eval_mode {
        stats.bump("conv_cases_with_evaluation");
    }
    if big_mode && rng.chance(1, 2) {
        // several datagrams' worth of state on one node: convergence needs several handshakes
        let who = rng.below(sim.nodes.len() as u64) as usize;
        for i in 0..rng.range(4, 9) {
            let len = rng.range(15_000, 33_000) as usize;
            let v = high_entropy_string(rng, len);
            sim.set(who, &format!("big{i}"), &v);
            stats.bump("op_set_big");
        }
    }
    if rng.chance(1, 6) && sim.nodes.len() >= 2 {
        // replica exactly at the owner's GC watermark, with more than a datagram of older state:
        // the owner writes several large values, a replica syncs completely, the owner deletes a
        // key (the tombstone is the top version), the replica syncs again, the grace period passes,
        // ONLY the owner collects the tombstone, then the owner writes again.
        stats.bump("conv_cases_replica_at_owner_watermark");
        let o = rng.below(sim.nodes.len() as u64) as usize;
        let r = (o + 1 + rng.below(sim.nodes.len() as u64 - 1) as usize) % sim.nodes.len();
        let nbig = rng.range(3, 5);
        for i in 0..nbig {
            let len = rng.range(24_000, 33_000) as usize;
            let v = high_entropy_string(rng, len);
            sim.set(o, &format!("wm{i}"), &v);
        }
        for _ in 0..(nbig + 1) {
            full_handshake(sim, r, o);
        }
        sim.delete(o, "wm0");
        full_handshake(sim, r, o);
        sim.tick(kv_grace + 1).await;
        sim.gc(o);
        sim.set(o, "after", "x");
    }
    if rng.chance(1, 6) && sim.nodes.len() >= 2 {
        // the owner's highest version is a tombstone that it collects before a replica caught up:
        // only a SetMaxVersion can bring the replica to the owner's max version
        stats.bump("conv_cases_top_tombstone_collected");
        let o = rng.below(sim.nodes.len() as u64) as usize;
        let r = (o + 1 + rng.below(sim.nodes.len() as u64 - 1) as usize) % sim.nodes.len();
        sim.set(o, "t1", "x");
        sim.set(o, "t2", "y");
        if rng.chance(1, 2) {
            full_handshake(sim, r, o);
        }
        sim.delete(o, "t2");
        sim.tick(kv_grace + 1).await;
        sim.gc(o);
    }
    if rng.chance(1, 5) && sim.nodes.len() >= 3 {
        // the initiator a holds news about a member x that it has just classified dead (not yet
        // quarantined: dead for less than half the grace period); a complete handshake a -> b must
        // still carry them to b
        stats.bump("conv_cases_news_about_a_dead_member");
        let x = rng.below(sim.nodes.len() as u64) as usize;
        let a = (x + 1) % sim.nodes.len();
        let b = (x + 2) % sim.nodes.len();
        full_handshake(sim, a, b);
        full_handshake(sim, b, a);
        sim.set(x, "dm", "1");
        full_handshake(sim, a, x);
        sim.eval(a);
        marked_handshake(sim, a, b);
    }
    if rng.chance(1, 5) && sim.nodes.len() >= 3 {
        // a relay still holds the owner's top tombstone, the owner alone collected it, a third node
        // is brought up to date by the owner (reset): what the relay then offers it ends with a
        // tombstone at or below its watermark
        stats.bump("conv_cases_relay_holds_collected_tombstone");
        let o = rng.below(sim.nodes.len() as u64) as usize;
        let r = (o + 1) % sim.nodes.len();
        let j = (o + 2) % sim.nodes.len();
        sim.set(o, "u1", "x");
        sim.set(o, "u2", "y");
        sim.delete(o, "u2");
        full_handshake(sim, r, o);
        sim.tick(kv_grace + 1).await;
        sim.gc(o);
        marked_handshake(sim, j, o);
        marked_handshake(sim, j, r);
    }
    let nops = rng.range(8, 45);
    for _ in 0..nops {
        if sim.dead_case {
            return;
        }
        let live_nodes = sim.nodes.len();
        let n = rng.below(live_nodes as u64) as usize;
        match rng.below(100) {
            0..=17 => {
                let k = pick_key(rng, allow_mb);
                if big_mode && rng.chance(2, 3) {
                    let len = rng.range(9_000, 33_000) as usize;
                    let v = high_entropy_string(rng, len);
                    sim.set(n, k, &v);
                    stats.bump("op_set_big");
                } else {
                    sim.set(n, k, *rng.pick(VALUES));
                    stats.bump("op_set");
                }
            }
            18..=21 => {
                sim.set_with_ttl(n, pick_key(rng, allow_mb), *rng.pick(VALUES));
                stats.bump("op_set_ttl");
            }
            22..=30 => {
                sim.delete(n, pick_key(rng, allow_mb));
                stats.bump("op_delete");
            }
            31..=34 => {
                sim.delete_after_ttl(n, pick_key(rng, allow_mb));
                stats.bump("op_delete_ttl");
            }
            35..=44 => {
                sim.gc(n);
                stats.bump("op_gc");
            }
            45..=54 => {
                let dt = if eval_mode {
                    *rng.pick(&[kv_grace, 1_953_125u64 * 512, 1_953_125 * 512 * 3, dead_grace / 2 + 1])
                } else {
                    *rng.pick(&[0, 1, kv_grace - 1, kv_grace, kv_grace + 1])
                };
                sim.tick(dt).await;
                stats.bump("op_tick");
            }
            55..=62 => {
                if let Some(b) = sim.syn(n) {
                    pool.push(b);
                }
                stats.bump("op_syn_lost_or_delayed");
            }
            63..=76 => {
                if !pool.is_empty() {
                    let i = rng.below(pool.len() as u64) as usize;
                    let msg = pool[i].clone();
                    if let Some(reply) = sim.deliver(n, &msg) {
                        if rng.chance(2, 3) {
                            pool.push(reply);
                        }
                    }
                    stats.bump("op_deliver_any");
                }
            }
            77..=90 => {
                let m = rng.below(live_nodes as u64) as usize;
                if m != n {
                    stats.bump("op_handshake");
                    full_handshake(sim, n, m);
                }
            }
            91..=94 => {
                if eval_mode {
                    sim.eval(n);
                    stats.bump("op_eval");
                }
            }
            95..=96 => {
                sim.heartbeat(n);
                stats.bump("op_heartbeat");
            }
            _ => {
                if sim.nodes.len() < n_nodes {
                    let i = sim.nodes.len();
                    join(sim, rng, i);
                    stats.bump("op_join_late");
                }
            }
        }
        while pool.len() > 16 {
            let i = rng.below(pool.len() as u64) as usize;
            pool.swap_remove(i);
        }
    }
    if sim.dead_case {
        return;
    }
    // writes stop, nothing is lost any more
    let n = sim.nodes.len();
    sim.raw_record("ROUND 0", "ok");
    let mut rounds = 0u64;
    let cap = 25u64;
    let mut extra = 1;
    let mut last_frontiers = impl_frontiers(sim);
    while rounds < cap {
        // a fair round: every ordered pair completes one handshake, in a random order
        let mut pairs: Vec<(usize, usize)> = Vec::new();
        for a in 0..n {
            for b in 0..n {
                if a != b {
                    pairs.push((a, b));
                }
            }
        }
        for i in (1..pairs.len()).rev() {
            let j = rng.below(i as u64 + 1) as usize;
            pairs.swap(i, j);
        }
        for (a, b) in pairs {
            marked_handshake(sim, a, b);
            if sim.dead_case {
                return;
            }
        }
        rounds += 1;
        sim.raw_record(&format!("ROUND {rounds}"), "ok");
        let fr = impl_frontiers(sim);
        let stuck = fr == last_frontiers;
        last_frontiers = fr;
        if stuck && !impl_converged(sim) {
            // the monitor reports this round; more rounds would only repeat it
            stats.bump("conv_cases_stuck");
            break;
        }
        if impl_converged(sim) {
            if extra == 0 {
                break;
            }
            extra -= 1;
        }
    }
    stats.add("conv_rounds", rounds);
    if rounds >= cap {
        stats.bump("conv_cases_hit_round_cap");
    }
    sim.raw_record(&format!("ROUNDSEND {rounds}"), "ok");
}
