//! S-loop: the real gossip server (`spawn_chitchat`) on a scripted in-process transport under the
//! paused clock (C19), plus garbage / oversized datagrams on the real UDP transport.

use std::collections::VecDeque;
use std::net::SocketAddr;
use std::sync::atomic::{AtomicUsize, Ordering};
use std::sync::{Arc, Mutex};
use std::time::Duration;

use async_trait::async_trait;
use chitchat::transport::{Socket, Transport};
use chitchat::{spawn_chitchat, Chitchat, ChitchatConfig, ChitchatMessage, Deserializable, FailureDetectorConfig};

use crate::sim::mk_id;
use crate::util::{put_digest, put_header, put_stream, Prng, WId};

enum Ev {
    Msg(SocketAddr, Vec<u8>),
    Fatal,
}

#[derive(Default)]
struct Shared {
    events: Mutex<VecDeque<Ev>>,
    notify: tokio::sync::Notify,
    fail_sends: Mutex<VecDeque<bool>>,
    sent: Mutex<Vec<&'static str>>,
    dests: Mutex<Vec<SocketAddr>>,
    chitchat: Mutex<Option<Arc<tokio::sync::Mutex<Chitchat>>>>,
    lock_violations: AtomicUsize,
    opened: AtomicUsize,
}

struct ScriptTransport {
    shared: Arc<Shared>,
}
struct ScriptSocket {
    shared: Arc<Shared>,
}

#[async_trait]
impl Transport for ScriptTransport {
    async fn open(&self, _listen_addr: SocketAddr) -> anyhow::Result<Box<dyn Socket>> {
        self.shared.opened.fetch_add(1, Ordering::SeqCst);
        Ok(Box::new(ScriptSocket { shared: self.shared.clone() }))
    }
}

impl ScriptSocket {
    fn check_lock(&self) {
        if let Some(cc) = self.shared.chitchat.lock().unwrap().as_ref() {
            if cc.try_lock().is_err() {
                self.shared.lock_violations.fetch_add(1, Ordering::SeqCst);
            }
        }
    }
}

#[async_trait]
impl Socket for ScriptSocket {
    async fn send(&mut self, to: SocketAddr, msg: ChitchatMessage) -> anyhow::Result<()> {
        self.check_lock();
        if matches!(msg, ChitchatMessage::Syn { .. }) {
            self.shared.dests.lock().unwrap().push(to);
        }
        let kind = match msg {
            ChitchatMessage::Syn { .. } => "syn",
            ChitchatMessage::SynAck { .. } => "synack",
            ChitchatMessage::Ack { .. } => "ack",
            ChitchatMessage::BadCluster => "badcluster",
        };
        self.shared.sent.lock().unwrap().push(kind);
        let fail = self.shared.fail_sends.lock().unwrap().pop_front().unwrap_or(false);
        if fail {
            anyhow::bail!("scripted send failure (oversized datagram / unreachable peer)");
        }
        Ok(())
    }

    async fn recv(&mut self) -> anyhow::Result<(SocketAddr, ChitchatMessage)> {
        loop {
            self.check_lock();
            let ev = self.shared.events.lock().unwrap().pop_front();
            match ev {
                Some(Ev::Msg(from, bytes)) => {
                    let mut buf = &bytes[..];
                    if let Ok(msg) = ChitchatMessage::deserialize(&mut buf) {
                        return Ok((from, msg));
                    }
                }
                Some(Ev::Fatal) => anyhow::bail!("scripted fatal receive error"),
                None => self.shared.notify.notified().await,
            }
        }
    }
}

fn wid(i: u64) -> WId {
    WId { name: format!("p{i}").into_bytes(), generation: 0, ipv: 4, ip: 0x0a000100 + i as u128, port: 9000 + i as u16 }
}

async fn settle() {
    for _ in 0..40 {
        tokio::task::yield_now().await;
    }
}

pub async fn gen_loop(trace: &mut String, rng: &mut Prng, counts: &mut std::collections::BTreeMap<String, u64>, name: &str) {
    use std::fmt::Write as _;
    let _ = writeln!(trace, "CASE {name}");
    let shared = Arc::new(Shared::default());
    let transport = ScriptTransport { shared: shared.clone() };
    let id = mk_id("srv", 0, 8000);
    let interval = Duration::from_secs(3600);
    let config = ChitchatConfig {
        chitchat_id: id.clone(),
        cluster_id: "c".to_string(),
        gossip_interval: interval,
        listen_addr: id.gossip_advertise_addr,
        seed_nodes: Vec::new(),
        failure_detector_config: FailureDetectorConfig::new(
            8.0,
            1000,
            Duration::from_secs(10),
            Duration::from_secs(5),
            Duration::from_secs(1_000_000_000),
        ),
        marked_for_deletion_grace_period: Duration::from_secs(1_000_000),
        catchup_callback: None,
        extra_liveness_predicate: None,
    };
    let handle = spawn_chitchat(config, Vec::new(), &transport).await.expect("spawn");
    *shared.chitchat.lock().unwrap() = Some(handle.chitchat());
    let peer: SocketAddr = ([10, 0, 9, 9], 9999).into();
    let mut next_member = 1u64;
    let mut bump = |k: &str| *counts.entry(k.to_string()).or_insert(0) += 1;

    let mut observe = |trace: &mut String, op: String, stopped: &str, hb: u64| {
        let sent: Vec<&'static str> = std::mem::take(&mut *shared.sent.lock().unwrap());
        let mut obs = format!("stopped {} hb {} sends {}", stopped, hb, sent.len());
        for k in sent {
            obs.push(' ');
            obs.push_str(k);
        }
        let _ = write!(obs, " lockviol {}", shared.lock_violations.load(Ordering::SeqCst));
        let _ = writeln!(trace, "{op}");
        let _ = writeln!(trace, "= {obs}");
    };

    let n_events = rng.range(4, 12);
    let mut events: Vec<String> = vec!["LEV tick".to_string()]; // the interval's first tick is immediate
    for _ in 0..n_events {
        let e = match rng.below(100) {
            0..=19 => format!("LEV recv syn 1 {}", rng.below(3)),
            20..=26 => "LEV recv syn 0 0".to_string(),
            27..=36 => format!("LEV recv synack {}", rng.below(3)),
            37..=44 => "LEV recv ack".to_string(),
            45..=49 => "LEV recv badcluster".to_string(),
            50..=54 => "LEV recvskipped".to_string(),
            55..=72 => "LEV tick".to_string(),
            73..=82 => "LEV cmdgossip".to_string(),
            83..=90 => "LEV userlock".to_string(),
            91..=94 => "LEV recvfatal".to_string(),
            95..=97 => "LEV shutdown".to_string(),
            _ => "LEV userlock".to_string(),
        };
        events.push(e);
    }
    if rng.chance(1, 2) {
        // half of the final shutdowns are queued directly behind a user gossip request
        events.push(if rng.chance(1, 2) { "LEV gossipthenshutdown".to_string() } else { "LEV shutdown".to_string() });
    }
    let mut first = true;
    for e in events {
        bump(e.split(' ').nth(1).unwrap_or("?"));
        // scripted send results for this event
        {
            let mut f = shared.fail_sends.lock().unwrap();
            f.clear();
            for _ in 0..8 {
                f.push_back(rng.chance(1, 3));
            }
        }
        let toks: Vec<&str> = e.split(' ').collect();
        match toks[1] {
            "tick" => {
                if !first {
                    tokio::time::advance(interval).await;
                }
            }
            "recv" => {
                let mut bytes = Vec::new();
                match toks[2] {
                    "syn" => {
                        let same = toks[3] == "1";
                        let k: u64 = toks[4].parse().unwrap();
                        put_header(&mut bytes, 0);
                        let entries: Vec<(WId, u64, u64, u64)> = (0..k).map(|j| (wid(next_member + j), 1, 0, 0)).collect();
                        if same {
                            next_member += k;
                        }
                        put_digest(&mut bytes, &entries);
                        crate::util::put_str(&mut bytes, if same { b"c" } else { b"other" });
                    }
                    "synack" => {
                        let k: u64 = toks[3].parse().unwrap();
                        put_header(&mut bytes, 1);
                        let entries: Vec<(WId, u64, u64, u64)> = (0..k).map(|j| (wid(next_member + j), 1, 0, 0)).collect();
                        next_member += k;
                        put_digest(&mut bytes, &entries);
                        put_stream(&mut bytes, &[], 16384, false);
                    }
                    "ack" => {
                        put_header(&mut bytes, 2);
                        put_stream(&mut bytes, &[], 16384, false);
                    }
                    _ => put_header(&mut bytes, 3),
                }
                shared.events.lock().unwrap().push_back(Ev::Msg(peer, bytes));
                shared.notify.notify_one();
            }
            "recvskipped" => {
                // undecodable payload: the scripted socket, like the UDP one, skips it
                shared.events.lock().unwrap().push_back(Ev::Msg(peer, vec![1, 2, 3, 4, 5]));
                shared.notify.notify_one();
            }
            "recvfatal" => {
                shared.events.lock().unwrap().push_back(Ev::Fatal);
                shared.notify.notify_one();
            }
            "cmdgossip" => {
                let _ = handle.gossip(peer);
            }
            "shutdown" => {
                let _ = handle.initiate_shutdown();
            }
            "gossipthenshutdown" => {
                // both commands are in the channel before the loop runs again
                let _ = handle.gossip(peer);
                let _ = handle.initiate_shutdown();
            }
            _ => {}
        }
        first = false;
        settle().await;
        // user access to the shared state between rounds: must not deadlock with the loop
        let hb = match tokio::time::timeout(Duration::ZERO, handle.with_chitchat(|c| u64::from(c.self_node_state().heartbeat()))).await {
            Ok(h) => h,
            Err(_) => {
                // give the loop one more chance, then report a stall
                settle().await;
                tokio::time::timeout(Duration::ZERO, handle.with_chitchat(|c| u64::from(c.self_node_state().heartbeat())))
                    .await
                    .unwrap_or(u64::MAX)
            }
        };
        let stopped = match tokio::time::timeout(Duration::ZERO, handle.termination_watcher()).await {
            Err(_) => "none".to_string(),
            Ok(Ok(())) => "ok".to_string(),
            Ok(Err(e)) => {
                if e.to_string().contains("panicked") { "panicked".to_string() } else { "err".to_string() }
            }
        };
        observe(trace, e.clone(), &stopped, hb);
    }
    // a shutdown request always completes
    let res = tokio::time::timeout(Duration::from_secs(5), handle.shutdown()).await;
    let obs = match res {
        Err(_) => "shutdown-stalled",
        Ok(_) => "shutdown-completed",
    };
    let _ = writeln!(trace, "LEV finalshutdown");
    let _ = writeln!(trace, "= {obs}");
}

/// Garbage and oversized datagrams on the real UDP transport over loopback, real clock.
/// Returns trace text (one case).
pub fn udp_case(seed: u64, case: usize) -> String {
    use std::fmt::Write as _;
    let mut trace = String::new();
    let _ = writeln!(trace, "CASE udp-{seed}-{case}");
    let rt = tokio::runtime::Builder::new_current_thread().enable_all().build().unwrap();
    let obs = rt.block_on(async move {
        let mut rng = Prng::new(seed ^ (case as u64) << 20);
        // find a free port (other checks may run concurrently)
        let mut handle_opt = None;
        let mut srv_addr: SocketAddr = ([127, 0, 0, 1], 0).into();
        for attempt in 0..30u64 {
            let port = 20_000 + ((seed.wrapping_mul(31) + case as u64 * 7 + attempt * 131 + rng.below(5000)) % 30_000) as u16;
            srv_addr = ([127, 0, 0, 1], port).into();
            let id = chitchat::ChitchatId::new("udp".to_string(), 0, srv_addr);
            let config = ChitchatConfig {
                chitchat_id: id,
                cluster_id: "c".to_string(),
                gossip_interval: Duration::from_millis(20),
                listen_addr: srv_addr,
                seed_nodes: Vec::new(),
                failure_detector_config: FailureDetectorConfig::default(),
                marked_for_deletion_grace_period: Duration::from_secs(1000),
                catchup_callback: None,
                extra_liveness_predicate: None,
            };
            if let Ok(h) = spawn_chitchat(config, Vec::new(), &chitchat::transport::UdpTransport).await {
                handle_opt = Some(h);
                break;
            }
        }
        let Some(handle) = handle_opt else {
            return "bind-failed".to_string();
        };
        let client = match tokio::net::UdpSocket::bind("127.0.0.1:0").await {
            Ok(c) => c,
            Err(_) => return "bind-failed".to_string(),
        };
        // garbage of several shapes, including a datagram larger than the receive buffer
        for _ in 0..rng.range(1, 6) {
            let n = *rng.pick(&[0usize, 1, 2, 3, 3, 4, 100, 65_507]);
            let mut g: Vec<u8> = (0..n).map(|_| rng.below(256) as u8).collect();
            if rng.chance(1, 2) && n >= 2 {
                // a valid header (magic number, version, message tag), possibly cut short
                for (i, b) in [0x53u8, 0xb0, 0, 1].iter().enumerate() {
                    if i < n {
                        g[i] = *b;
                    }
                }
            }
            let _ = client.send_to(&g, srv_addr).await;
        }
        // structured hostile datagrams: valid header and message tag, then a block whose announced
        // length exceeds what is left (uncompressed and compressed), a digest announcing 65,535
        // entries, a zstd frame header declaring 2^63 bytes
        let hostile: [&[u8]; 4] = [
            &[0x53, 0xb0, 0, 2, 2, 0x40, 0x00, 0xaa, 0xbb, 0xcc],
            &[0x53, 0xb0, 0, 2, 1, 0x40, 0x00, 0xaa],
            &[0x53, 0xb0, 0, 1, 0xff, 0xff, 1, 2, 3],
            &[0x53, 0xb0, 0, 2, 1, 0x0d, 0x00, 0x28, 0xb5, 0x2f, 0xfd, 0xe0, 0, 0, 0, 0, 0, 0, 0, 0x80, 0],
        ];
        for h in hostile {
            let _ = client.send_to(h, srv_addr).await;
        }
        // failed sends: gossip to an address family the bound socket cannot reach (the OS refuses
        // the send), several times; later sends must be unaffected
        for _ in 0..rng.range(1, 3) {
            let unreachable: SocketAddr = "[::1]:9".parse().unwrap();
            let _ = handle.gossip(unreachable);
        }
        tokio::time::sleep(Duration::from_millis(60)).await;
        // a valid SYN must still be answered
        let mut syn = Vec::new();
        put_header(&mut syn, 0);
        put_digest(&mut syn, &[]);
        crate::util::put_str(&mut syn, b"c");
        let _ = client.send_to(&syn, srv_addr).await;
        let mut buf = vec![0u8; 65_536];
        let answered = tokio::time::timeout(Duration::from_millis(1500), client.recv_from(&mut buf)).await;
        let hb0 = handle.with_chitchat(|c| u64::from(c.self_node_state().heartbeat())).await;
        tokio::time::sleep(Duration::from_millis(100)).await;
        let hb1 = handle.with_chitchat(|c| u64::from(c.self_node_state().heartbeat())).await;
        let running = tokio::time::timeout(Duration::ZERO, handle.termination_watcher()).await.is_err();
        let down = tokio::time::timeout(Duration::from_secs(2), handle.shutdown()).await.is_ok();
        format!(
            "answered {} running {} heartbeating {} shutdown {}",
            matches!(answered, Ok(Ok((n, _))) if n >= 4 && buf[3] == 1) as u8,
            running as u8,
            (hb1 > hb0) as u8,
            down as u8
        )
    });
    if obs != "bind-failed" {
        // (no loopback socket available: nothing observed, nothing claimed)
        let _ = writeln!(trace, "UDP");
        let _ = writeln!(trace, "= {obs}");
    }
    trace
}


// ------------------------------------------------------------------------------------------
// S-round (C17): the pools of one real gossip round. The server (`spawn_chitchat`, scripted
// transport, paused clock) learns peers from injected SYNs, some become live (two heartbeats),
// some dead, seeds may include the node's own address and unknown addresses. Just before a round
// the four pools are computed from the public API the way the property says (self filtered from
// peers, live and seeds); the destinations of the SYNs sent by that round are recorded.
fn addr_tok(a: &SocketAddr) -> String {
    match a.ip() {
        std::net::IpAddr::V4(ip) => format!("4.{}.{}", u32::from(ip), a.port()),
        std::net::IpAddr::V6(ip) => format!("6.{}.{}", u128::from(ip), a.port()),
    }
}

pub async fn gen_round(trace: &mut String, rng: &mut Prng, counts: &mut std::collections::BTreeMap<String, u64>, name: &str) {
    use std::fmt::Write as _;
    let _ = writeln!(trace, "CASE {name}");
    let shared = Arc::new(Shared::default());
    let transport = ScriptTransport { shared: shared.clone() };
    let id = mk_id("srv", 0, 8000);
    let self_addr = id.gossip_advertise_addr;
    let interval = Duration::from_secs(1);
    let mut n_peers = rng.range(0, 5);
    // one case in three: the dead peers have been dead for more than half the grace period (they are
    // quarantined — no longer mentioned in digests — but still dead peers until they are removed)
    let long_dead = rng.chance(1, 3);
    if long_dead {
        n_peers = n_peers.max(3);
    }
    let peer_addr = |i: u64| -> SocketAddr { ([10, 0, 1, i as u8], 9000 + i as u16).into() };
    // seeds: any subset of {self, peers, an address nobody uses}
    let mut seeds: Vec<String> = Vec::new();
    if rng.chance(1, 2) {
        seeds.push(self_addr.to_string());
    }
    for i in 0..n_peers {
        if rng.chance(1, 3) {
            seeds.push(peer_addr(i).to_string());
        }
    }
    if rng.chance(1, 3) {
        seeds.push("10.9.9.9:9".to_string());
    }
    // one case in four: a host-name seed that does not resolve next to the literal ones, and more than
    // two DNS refresh periods (60 s each) before the observed round: the literal seeds must still
    // be seeds
    let dns_mode = !long_dead && rng.chance(1, 4);
    if dns_mode {
        seeds.push("no-such-host.invalid:7777".to_string());
        if !seeds.iter().any(|s| s.parse::<SocketAddr>().map(|a| a != self_addr).unwrap_or(false)) {
            seeds.push("10.9.9.8:9".to_string());
        }
    }
    // one case in three: the node binds another address than the one it advertises (NAT, 0.0.0.0):
    // "itself" is the ADVERTISED address — the one peers and seed lists know it by
    let listen_addr: SocketAddr = if rng.chance(1, 3) {
        *counts.entry("round_listen_differs_from_advertised".to_string()).or_insert(0) += 1;
        ([0, 0, 0, 0], self_addr.port() + 1).into()
    } else {
        self_addr
    };
    let config = ChitchatConfig {
        chitchat_id: id.clone(),
        cluster_id: "c".to_string(),
        gossip_interval: interval,
        listen_addr,
        seed_nodes: seeds.clone(),
        failure_detector_config: FailureDetectorConfig::new(8.0, 1000, Duration::from_secs(10), Duration::from_secs(5), Duration::from_secs(if long_dead { 100 } else { 1_000_000 })),
        marked_for_deletion_grace_period: Duration::from_secs(1_000_000),
        catchup_callback: None,
        extra_liveness_predicate: None,
    };
    let handle = spawn_chitchat(config, Vec::new(), &transport).await.expect("spawn");
    *shared.chitchat.lock().unwrap() = Some(handle.chitchat());
    settle().await;
    // which peers keep heartbeating (live) and which are heard once only (dead after evaluation)
    let mut keeps: Vec<bool> = (0..n_peers).map(|_| rng.chance(1, 2)).collect();
    if long_dead && rng.chance(3, 4) {
        // one live peer, outnumbered by the long-dead ones
        for (i, k) in keeps.iter_mut().enumerate() {
            *k = i == 0;
        }
    }
    let wid_of_peer = |i: u64| WId { name: format!("p{i}").into_bytes(), generation: 0, ipv: 4, ip: 0x0a000100 + i as u128, port: 9000 + i as u16 };
    for round in 1..=3u64 {
        let entries: Vec<(WId, u64, u64, u64)> = (0..n_peers)
            .filter(|i| round == 1 || keeps[*i as usize])
            .map(|i| (wid_of_peer(i), round, 0, 0))
            .collect();
        if !entries.is_empty() {
            let mut bytes = Vec::new();
            put_header(&mut bytes, 0);
            put_digest(&mut bytes, &entries);
            crate::util::put_str(&mut bytes, b"c");
            shared.events.lock().unwrap().push_back(Ev::Msg(peer_addr(0), bytes));
            shared.notify.notify_one();
            settle().await;
        }
        tokio::time::advance(interval).await;
        settle().await;
    }
    if long_dead {
        for round in 4..=64u64 {
            let entries: Vec<(WId, u64, u64, u64)> =
                (0..n_peers).filter(|i| keeps[*i as usize]).map(|i| (wid_of_peer(i), round, 0, 0)).collect();
            if !entries.is_empty() {
                let mut bytes = Vec::new();
                put_header(&mut bytes, 0);
                put_digest(&mut bytes, &entries);
                crate::util::put_str(&mut bytes, b"c");
                shared.events.lock().unwrap().push_back(Ev::Msg(peer_addr(0), bytes));
                shared.notify.notify_one();
                settle().await;
            }
            tokio::time::advance(interval).await;
            settle().await;
        }
        *counts.entry("round_long_dead".to_string()).or_insert(0) += 1;
    }
    if dns_mode {
        for round in 4..=130u64 {
            let entries: Vec<(WId, u64, u64, u64)> =
                (0..n_peers).filter(|i| keeps[*i as usize]).map(|i| (wid_of_peer(i), round, 0, 0)).collect();
            if !entries.is_empty() {
                let mut bytes = Vec::new();
                put_header(&mut bytes, 0);
                put_digest(&mut bytes, &entries);
                crate::util::put_str(&mut bytes, b"c");
                shared.events.lock().unwrap().push_back(Ev::Msg(peer_addr(0), bytes));
                shared.notify.notify_one();
                settle().await;
            }
            tokio::time::advance(interval).await;
            settle().await;
        }
        *counts.entry("round_dns_refreshes".to_string()).or_insert(0) += 1;
    }
    // the pools, as the property defines them, from the public API
    let (peers, live, dead): (Vec<SocketAddr>, Vec<SocketAddr>, Vec<SocketAddr>) = {
        let cc = handle.chitchat();
        let g = cc.lock().await;
        let me = g.self_chitchat_id().clone();
        let peers = g.node_states().keys().filter(|i| **i != me).map(|i| i.gossip_advertise_addr).collect();
        let live = g.live_nodes().filter(|i| **i != me).map(|i| i.gossip_advertise_addr).collect();
        let dead = g.dead_nodes().map(|i| i.gossip_advertise_addr).collect();
        (peers, live, dead)
    };
    let seed_addrs: Vec<SocketAddr> = seeds.iter().filter_map(|s| s.parse().ok()).filter(|a: &SocketAddr| *a != self_addr).collect();
    shared.dests.lock().unwrap().clear();
    // one case in three: the first send of the observed round fails (unroutable peer, oversized
    // datagram): the round must go on to its other destinations — the dead peer, the seed
    if rng.chance(1, 3) {
        shared.fail_sends.lock().unwrap().push_back(true);
        *counts.entry("round_first_send_fails".to_string()).or_insert(0) += 1;
    }
    tokio::time::advance(interval).await;
    settle().await;
    shared.fail_sends.lock().unwrap().clear();
    let dests: Vec<SocketAddr> = std::mem::take(&mut *shared.dests.lock().unwrap());
    let list = |tag: &str, v: &[SocketAddr]| {
        let mut s = format!(" {tag} {}", v.len());
        let mut sorted: Vec<String> = v.iter().map(addr_tok).collect();
        sorted.sort();
        sorted.dedup();
        let mut s2 = format!(" {tag} {}", sorted.len());
        for a in sorted {
            s2.push(' ');
            s2.push_str(&a);
        }
        let _ = &mut s;
        s2
    };
    let mut op = format!("GROUND {}", addr_tok(&self_addr));
    op.push_str(&list("P", &peers));
    op.push_str(&list("L", &live));
    op.push_str(&list("D", &dead));
    op.push_str(&list("S", &seed_addrs));
    let _ = write!(op, " DESTS {}", dests.len());
    for d in &dests {
        op.push(' ');
        op.push_str(&addr_tok(d));
    }
    let _ = writeln!(trace, "{op}");
    let _ = writeln!(trace, "= ok");
    *counts.entry("round_cases".to_string()).or_insert(0) += 1;
    *counts.entry(format!("round_live_{}", live.len().min(3))).or_insert(0) += 1;
    *counts.entry(format!("round_dead_{}", dead.len().min(3))).or_insert(0) += 1;
    if seeds.iter().any(|s| *s == self_addr.to_string()) {
        *counts.entry("round_self_is_seed".to_string()).or_insert(0) += 1;
    }
    let _ = handle.shutdown().await;
}
