//! `vharness replay <trace-in> 0 0 <trace-out>`: re-executes the OPERATIONS of a recorded trace
//! (a replay file written by ./check) on the implementation as it is now, and writes a fresh
//! trace with the implementation's current observations. Only the World-based operations are
//! supported (JOIN SET SETTTL DEL DELTTL GC HB TICK PROC EVAL SYN CATCHUP DECODE and the C01
//! markers); a trace using anything else is reported as unsupported (the recorded observations
//! are then replayed instead).
use std::net::{IpAddr, Ipv4Addr, Ipv6Addr, SocketAddr};

use chitchat::ChitchatId;

use crate::sim::{NodeSpec, Pred, Sim};
use crate::util::{put_digest, put_header, put_stream, WId, WOp};

fn unhex(t: &str) -> Result<Vec<u8>, String> {
    if t == "-" {
        return Ok(Vec::new());
    }
    if t.len() % 2 != 0 {
        return Err(format!("bad hex {t}"));
    }
    (0..t.len()).step_by(2).map(|i| u8::from_str_radix(&t[i..i + 2], 16).map_err(|e| e.to_string())).collect()
}

fn unhex_str(t: &str) -> Result<String, String> {
    String::from_utf8(unhex(t)?).map_err(|e| e.to_string())
}

fn parse_wid(t: &str) -> Result<WId, String> {
    let parts: Vec<&str> = t.split('/').collect();
    if parts.len() != 3 {
        return Err(format!("bad id {t}"));
    }
    let addr: Vec<&str> = parts[2].split('.').collect();
    if addr.len() != 3 {
        return Err(format!("bad addr {t}"));
    }
    Ok(WId {
        name: unhex(parts[0])?,
        generation: parts[1].parse().map_err(|_| "gen")?,
        ipv: addr[0].parse().map_err(|_| "ipv")?,
        ip: addr[1].parse().map_err(|_| "ip")?,
        port: addr[2].parse().map_err(|_| "port")?,
    })
}

fn id_of_wid(w: &WId) -> Result<ChitchatId, String> {
    let ip = if w.ipv == 4 { IpAddr::V4(Ipv4Addr::from(w.ip as u32)) } else { IpAddr::V6(Ipv6Addr::from(w.ip)) };
    Ok(ChitchatId::new(String::from_utf8(w.name.clone()).map_err(|e| e.to_string())?, w.generation, SocketAddr::new(ip, w.port)))
}

struct Toks<'a> {
    t: Vec<&'a str>,
    i: usize,
}
impl<'a> Toks<'a> {
    fn next(&mut self) -> Result<&'a str, String> {
        let r = self.t.get(self.i).copied().ok_or("unexpected end of line")?;
        self.i += 1;
        Ok(r)
    }
    fn num<T: std::str::FromStr>(&mut self) -> Result<T, String> {
        let t = self.next()?;
        t.parse().map_err(|_| format!("bad number {t}"))
    }
    fn expect(&mut self, s: &str) -> Result<(), String> {
        let t = self.next()?;
        if t == s { Ok(()) } else { Err(format!("expected {s}, got {t}")) }
    }
}

fn parse_digest(tk: &mut Toks) -> Result<Vec<(WId, u64, u64, u64)>, String> {
    tk.expect("D")?;
    let n: usize = tk.num()?;
    let mut v = Vec::new();
    for _ in 0..n {
        let id = parse_wid(tk.next()?)?;
        v.push((id, tk.num()?, tk.num()?, tk.num()?));
    }
    Ok(v)
}

fn parse_delta(tk: &mut Toks) -> Result<Vec<WOp>, String> {
    tk.expect("X")?;
    let _len: u64 = tk.num()?;
    let n: usize = tk.num()?;
    let mut ops = Vec::new();
    for _ in 0..n {
        let id = parse_wid(tk.next()?)?;
        let gc: u64 = tk.num()?;
        let from: u64 = tk.num()?;
        let max: u64 = tk.num()?;
        let nkv: usize = tk.num()?;
        ops.push(WOp::Node { id, gc, from });
        let mut last = 0u64;
        for _ in 0..nkv {
            let key = unhex(tk.next()?)?;
            let value = unhex(tk.next()?)?;
            let version: u64 = tk.num()?;
            let status: u8 = tk.num()?;
            last = version;
            ops.push(WOp::Kv { key, value, version, status });
        }
        if (nkv == 0 && max > 0) || (nkv > 0 && max != last) {
            ops.push(WOp::SetMax(max));
        }
    }
    Ok(ops)
}

/// bytes of the message whose canonical tokens start at the cursor (independent encoder)
fn message_bytes(tk: &mut Toks) -> Result<Vec<u8>, String> {
    let mut out = Vec::new();
    match tk.next()? {
        "SYN" => {
            let cluster = unhex(tk.next()?)?;
            let dg = parse_digest(tk)?;
            put_header(&mut out, 0);
            put_digest(&mut out, &dg);
            crate::util::put_str(&mut out, &cluster);
        }
        "SYNACK" => {
            let dg = parse_digest(tk)?;
            let ops = parse_delta(tk)?;
            put_header(&mut out, 1);
            put_digest(&mut out, &dg);
            put_stream(&mut out, &ops, 16_384, false);
        }
        "ACK" => {
            let ops = parse_delta(tk)?;
            put_header(&mut out, 2);
            put_stream(&mut out, &ops, 16_384, false);
        }
        "BADCLUSTER" => put_header(&mut out, 3),
        t => return Err(format!("bad message tag {t}")),
    }
    Ok(out)
}

pub async fn replay(path: &str) -> Result<String, String> {
    let text = std::fs::read_to_string(path).map_err(|e| e.to_string())?;
    let mut sim = Sim::new();
    for line in text.lines() {
        if line.is_empty() || line.starts_with('#') || line.starts_with("= ") || line == "=" {
            continue;
        }
        if let Some(name) = line.strip_prefix("CASE ") {
            sim.start_case(name);
            continue;
        }
        if line == "OPT noevents" {
            sim.no_events();
            continue;
        }
        let head = line.split(" | ").next().unwrap_or(line);
        let mut tk = Toks { t: head.split(' ').collect(), i: 0 };
        match tk.next()? {
            "JOIN" => {
                let id = id_of_wid(&parse_wid(tk.next()?)?)?;
                let mut spec = NodeSpec::simple(id);
                spec.cluster = unhex_str(tk.next()?)?;
                spec.phi_num = tk.num()?;
                spec.phi_den = tk.num()?;
                spec.window = tk.num()?;
                spec.max_interval_ns = tk.num()?;
                spec.initial_interval_ns = tk.num()?;
                spec.dead_grace_ns = tk.num()?;
                let _half: u128 = tk.num()?;
                spec.kv_grace_ns = tk.num()?;
                spec.pred = match tk.next()? {
                    "none" => Pred::None,
                    "hasentry" => Pred::HasEntry(unhex_str(tk.next()?)?),
                    "visible" => Pred::Visible(unhex_str(tk.next()?)?),
                    "valeq" => Pred::ValEq(unhex_str(tk.next()?)?, unhex_str(tk.next()?)?),
                    "maxeven" => Pred::MaxEven,
                    t => return Err(format!("bad predicate {t}")),
                };
                spec.has_cb = tk.num::<u8>()? != 0;
                let ninit: usize = tk.num()?;
                spec.initial = Vec::new();
                for _ in 0..ninit {
                    spec.initial.push((unhex_str(tk.next()?)?, unhex_str(tk.next()?)?));
                }
                sim.join(spec);
            }
            "SET" => {
                let n: usize = tk.num()?;
                let (k, v) = (unhex_str(tk.next()?)?, unhex_str(tk.next()?)?);
                sim.set(n, &k, &v);
            }
            "SETTTL" => {
                let n: usize = tk.num()?;
                let (k, v) = (unhex_str(tk.next()?)?, unhex_str(tk.next()?)?);
                sim.set_with_ttl(n, &k, &v);
            }
            "DEL" => {
                let n: usize = tk.num()?;
                sim.delete(n, &unhex_str(tk.next()?)?);
            }
            "DELTTL" => {
                let n: usize = tk.num()?;
                sim.delete_after_ttl(n, &unhex_str(tk.next()?)?);
            }
            "GC" => sim.gc(tk.num()?),
            "HB" => sim.heartbeat(tk.num()?),
            "TICK" => sim.tick(tk.num()?).await,
            "EVAL" => sim.eval(tk.num()?),
            "SYN" => {
                sim.syn(tk.num()?);
            }
            "PROC" => {
                let n: usize = tk.num()?;
                let bytes = message_bytes(&mut tk)?;
                sim.deliver(n, &bytes);
            }
            "DECODE" => sim.decode(&unhex(tk.next()?)?),
            "DECODEOK" => sim.decode_expect_ok(&unhex(tk.next()?)?),
            "READ" => {
                let n: usize = tk.num()?;
                let member = id_of_wid(&parse_wid(tk.next()?)?)?;
                let (k, p) = (unhex_str(tk.next()?)?, unhex_str(tk.next()?)?);
                sim.read(n, &member, &k, &p);
            }
            "ENCODE" => {}
            "CATCHUP" => {
                let n: usize = tk.num()?;
                let member = id_of_wid(&parse_wid(tk.next()?)?)?;
                let mx: u64 = tk.num()?;
                let gc: u64 = tk.num()?;
                let nk: usize = tk.num()?;
                let mut kvs = Vec::new();
                for _ in 0..nk {
                    kvs.push((unhex_str(tk.next()?)?, unhex_str(tk.next()?)?, tk.num::<u64>()?, tk.num::<u8>()?));
                }
                sim.catchup(n, &member, &kvs, mx, gc);
            }
            "ROUND" | "ROUNDSEND" | "HS" | "HSEND" | "HONEST" => sim.raw_record(line.trim(), "ok"),
            t => return Err(format!("unsupported operation {t}")),
        }
    }
    Ok(std::mem::take(&mut sim.trace))
}
