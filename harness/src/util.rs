//! Small helpers: deterministic PRNG, hex, independent wire encoder, stream block walker.

use std::fmt::Write as _;

/// splitmix64: every random choice of the harness derives from one of these, seeded by VERIF_SEED.
#[derive(Clone)]
pub struct Prng(pub u64);

impl Prng {
    pub fn new(seed: u64) -> Self {
        Prng(seed.wrapping_mul(0x9E3779B97F4A7C15) ^ 0xD1B54A32D192ED03)
    }
    pub fn next_u64(&mut self) -> u64 {
        self.0 = self.0.wrapping_add(0x9E3779B97F4A7C15);
        let mut z = self.0;
        z = (z ^ (z >> 30)).wrapping_mul(0xBF58476D1CE4E5B9);
        z = (z ^ (z >> 27)).wrapping_mul(0x94D049BB133111EB);
        z ^ (z >> 31)
    }
    /// uniform in 0..n (n > 0)
    pub fn below(&mut self, n: u64) -> u64 {
        self.next_u64() % n
    }
    pub fn range(&mut self, lo: u64, hi_incl: u64) -> u64 {
        lo + self.below(hi_incl - lo + 1)
    }
    pub fn chance(&mut self, num: u64, den: u64) -> bool {
        self.below(den) < num
    }
    pub fn pick<'a, T>(&mut self, items: &'a [T]) -> &'a T {
        &items[self.below(items.len() as u64) as usize]
    }
    pub fn fork(&mut self) -> Prng {
        Prng(self.next_u64())
    }
}

/// Observation token for a value: hex, or `~<len>.<fnv1a-64>` for values over 256 bytes (keeps the
/// traces small; both sides print the same token).
pub fn hexv(bytes: &[u8]) -> String {
    if bytes.len() <= 256 {
        return hex(bytes);
    }
    let mut h: u64 = 0xcbf2_9ce4_8422_2325;
    for b in bytes {
        h ^= *b as u64;
        h = h.wrapping_mul(0x0000_0100_0000_01b3);
    }
    format!("~{}.{:016x}", bytes.len(), h)
}

pub fn hex(bytes: &[u8]) -> String {
    if bytes.is_empty() {
        return "-".to_string();
    }
    let mut out = String::with_capacity(bytes.len() * 2);
    for b in bytes {
        let _ = write!(out, "{b:02x}");
    }
    out
}

pub fn unhex(s: &str) -> Vec<u8> {
    if s == "-" {
        return Vec::new();
    }
    let b = s.as_bytes();
    let mut out = Vec::with_capacity(b.len() / 2);
    let d = |c: u8| -> u8 {
        match c {
            b'0'..=b'9' => c - b'0',
            b'a'..=b'f' => c - b'a' + 10,
            _ => panic!("bad hex"),
        }
    };
    let mut i = 0;
    while i + 1 < b.len() {
        out.push((d(b[i]) << 4) | d(b[i + 1]));
        i += 2;
    }
    out
}

// ------------------------------------------------------------------------------------------
// Independent encoder of the documented wire layout (used to craft messages; every block is
// stored uncompressed unless asked otherwise).

#[derive(Clone, Debug)]
pub struct WId {
    pub name: Vec<u8>,
    pub generation: u64,
    /// 4 or 6
    pub ipv: u8,
    pub ip: u128,
    pub port: u16,
}

#[derive(Clone, Debug)]
pub enum WOp {
    Node { id: WId, gc: u64, from: u64 },
    Kv { key: Vec<u8>, value: Vec<u8>, version: u64, status: u8 },
    SetMax(u64),
    /// arbitrary bytes spliced into the op stream (hostile input)
    Raw(Vec<u8>),
}

pub fn put_str(out: &mut Vec<u8>, s: &[u8]) {
    out.extend_from_slice(&(s.len() as u16).to_le_bytes());
    out.extend_from_slice(s);
}

pub fn put_id(out: &mut Vec<u8>, id: &WId) {
    put_str(out, &id.name);
    out.extend_from_slice(&id.generation.to_le_bytes());
    if id.ipv == 4 {
        out.push(4);
        out.extend_from_slice(&(id.ip as u32).to_be_bytes());
    } else {
        out.push(6);
        out.extend_from_slice(&id.ip.to_be_bytes());
    }
    out.extend_from_slice(&id.port.to_le_bytes());
}

pub fn put_op(out: &mut Vec<u8>, op: &WOp) {
    match op {
        WOp::Node { id, gc, from } => {
            out.push(0);
            put_id(out, id);
            out.extend_from_slice(&gc.to_le_bytes());
            out.extend_from_slice(&from.to_le_bytes());
        }
        WOp::Kv { key, value, version, status } => {
            out.push(1);
            put_str(out, key);
            put_str(out, value);
            out.extend_from_slice(&version.to_le_bytes());
            out.push(*status);
        }
        WOp::SetMax(v) => {
            out.push(2);
            out.extend_from_slice(&v.to_le_bytes());
        }
        WOp::Raw(b) => out.extend_from_slice(b),
    }
}

/// Encodes an op stream as blocks of at most `block` bytes. `compress`: try zstd for each block
/// (stored compressed when zstd fits it in a buffer of the block's size, like the real writer).
pub fn put_stream(out: &mut Vec<u8>, ops: &[WOp], block: usize, compress: bool) {
    let mut data = Vec::new();
    for op in ops {
        put_op(&mut data, op);
    }
    for chunk in data.chunks(block.max(1)) {
        let mut done = false;
        if compress {
            let mut buf = vec![0u8; chunk.len()];
            if let Ok(n) = zstd::bulk::compress_to_buffer(chunk, &mut buf[..], 0) {
                out.push(1);
                out.extend_from_slice(&(n as u16).to_le_bytes());
                out.extend_from_slice(&buf[..n]);
                done = true;
            }
        }
        if !done {
            out.push(2);
            out.extend_from_slice(&(chunk.len() as u16).to_le_bytes());
            out.extend_from_slice(chunk);
        }
    }
    out.push(0);
}

/// Like `put_stream` with compression, but every block is compressed even when the zstd frame is
/// LONGER than the raw bytes (small or incompressible blocks): the layout does not require a
/// compressed block to shrink.
pub fn put_stream_always_compressed(out: &mut Vec<u8>, ops: &[WOp], block: usize) {
    let mut data = Vec::new();
    for op in ops {
        put_op(&mut data, op);
    }
    for chunk in data.chunks(block.max(1)) {
        let mut buf = vec![0u8; chunk.len() + 128];
        let n = zstd::bulk::compress_to_buffer(chunk, &mut buf[..], 0).expect("zstd with room to spare");
        out.push(1);
        out.extend_from_slice(&(n as u16).to_le_bytes());
        out.extend_from_slice(&buf[..n]);
    }
    out.push(0);
}

pub fn put_header(out: &mut Vec<u8>, tag: u8) {
    out.extend_from_slice(&45139u16.to_le_bytes());
    out.push(0);
    out.push(tag);
}

pub fn put_digest(out: &mut Vec<u8>, entries: &[(WId, u64, u64, u64)]) {
    out.extend_from_slice(&(entries.len() as u16).to_le_bytes());
    for (id, hb, gc, mx) in entries {
        put_id(out, id);
        out.extend_from_slice(&hb.to_le_bytes());
        out.extend_from_slice(&gc.to_le_bytes());
        out.extend_from_slice(&mx.to_le_bytes());
    }
}

// ------------------------------------------------------------------------------------------
// zstd oracle tables recovered from a byte stream.

/// Walks the blocks of a compressed stream starting at `buf[0]`. Returns for each block
/// (is_compressed, payload). Stops silently at the first malformed block.
pub fn walk_blocks(buf: &[u8]) -> Vec<(bool, Vec<u8>)> {
    let mut blocks = Vec::new();
    let mut i = 0usize;
    loop {
        if i >= buf.len() {
            break;
        }
        let tag = buf[i];
        if tag != 1 && tag != 2 {
            break;
        }
        if i + 3 > buf.len() {
            break;
        }
        let len = u16::from_le_bytes([buf[i + 1], buf[i + 2]]) as usize;
        if i + 3 + len > buf.len() {
            break;
        }
        blocks.push((tag == 1, buf[i + 3..i + 3 + len].to_vec()));
        i += 3 + len;
    }
    blocks
}

pub fn zstd_decompress(block: &[u8]) -> Option<Vec<u8>> {
    let mut out = vec![0u8; 65535];
    match zstd::bulk::decompress_to_buffer(block, &mut out[..]) {
        Ok(n) => {
            out.truncate(n);
            Some(out)
        }
        Err(_) => None,
    }
}

/// ` | ZC <k> (<plain> <compressed or !>)*` for the blocks of an *emitted* stream.
pub fn zc_table(stream: &[u8]) -> String {
    let blocks = walk_blocks(stream);
    let mut out = String::new();
    let mut entries = Vec::new();
    for (compressed, payload) in blocks {
        if compressed {
            if let Some(plain) = zstd_decompress(&payload) {
                entries.push(format!("{} {}", hex(&plain), hex(&payload)));
            }
        } else {
            entries.push(format!("{} !", hex(&payload)));
        }
    }
    let _ = write!(out, " | ZC {}", entries.len());
    for e in entries {
        out.push(' ');
        out.push_str(&e);
    }
    out
}

/// ` | ZD <k> (<compressed> <plain or !>)*` for the compressed blocks of a *received* stream.
pub fn zd_table(stream: &[u8]) -> String {
    let blocks = walk_blocks(stream);
    let mut entries = Vec::new();
    for (compressed, payload) in blocks {
        if compressed {
            match zstd_decompress(&payload) {
                Some(plain) => entries.push(format!("{} {}", hex(&payload), hex(&plain))),
                None => entries.push(format!("{} !", hex(&payload))),
            }
        }
    }
    let mut out = format!(" | ZD {}", entries.len());
    for e in entries {
        out.push(' ');
        out.push_str(&e);
    }
    out
}

/// Best-effort location of the compressed stream inside a serialized message, then its ZD table.
pub fn zd_table_of_message(bytes: &[u8]) -> String {
    fn skip_id(b: &[u8], mut i: usize) -> Option<usize> {
        if i + 2 > b.len() {
            return None;
        }
        let l = u16::from_le_bytes([b[i], b[i + 1]]) as usize;
        i += 2 + l + 8;
        if i >= b.len() {
            return None;
        }
        i += match b[i] {
            4 => 1 + 4 + 2,
            6 => 1 + 16 + 2,
            _ => return None,
        };
        if i > b.len() {
            return None;
        }
        Some(i)
    }
    if bytes.len() < 4 {
        return String::new();
    }
    let start = match bytes[3] {
        2 => Some(4usize),
        1 => {
            // skip the digest
            (|| {
                let mut i = 4usize;
                if i + 2 > bytes.len() {
                    return None;
                }
                let n = u16::from_le_bytes([bytes[i], bytes[i + 1]]) as usize;
                i += 2;
                for _ in 0..n {
                    i = skip_id(bytes, i)?;
                    i += 24;
                    if i > bytes.len() {
                        return None;
                    }
                }
                Some(i)
            })()
        }
        _ => None,
    };
    match start {
        Some(s) if s <= bytes.len() => zd_table(&bytes[s..]),
        _ => String::new(),
    }
}

/// ` | ZC ..` table answering what the real compressor does with the blocks the real writer
/// (threshold 16,384) would cut out of the op stream carried by `stream`.
pub fn zc_table_real(stream: &[u8]) -> String {
    let mut data = Vec::new();
    for (compressed, payload) in walk_blocks(stream) {
        if compressed {
            match zstd_decompress(&payload) {
                Some(p) => data.extend_from_slice(&p),
                None => return String::new(),
            }
        } else {
            data.extend_from_slice(&payload);
        }
    }
    let mut entries = Vec::new();
    for chunk in data.chunks(16_384) {
        let mut buf = vec![0u8; chunk.len()];
        match zstd::bulk::compress_to_buffer(chunk, &mut buf[..], 0) {
            Ok(n) => entries.push(format!("{} {}", hex(chunk), hex(&buf[..n]))),
            Err(_) => entries.push(format!("{} !", hex(chunk))),
        }
    }
    let mut out = format!(" | ZC {}", entries.len());
    for e in entries {
        out.push(' ');
        out.push_str(&e);
    }
    out
}
