#!/bin/sh
# One-time build after a fresh restore (offline): Coq development (full .vo), extracted model +
# OCaml driver, Rust harness linked against /repo's working tree with feature `verif`.
set -e
cd "$(dirname "$0")"
export RUSTUP_TOOLCHAIN=1.88.0 CARGO_NET_OFFLINE=true
mkdir -p build evidence out
python3 tools/params.py
python3 tools/guards.py > build/guards.log
( cd coq && coq_makefile -f _CoqProject -o Makefile >/dev/null 2>&1 && timeout 3000 make -j16 > ../build/coq-build.log 2>&1 ) \
  || { tail -40 build/coq-build.log; echo "setup: Coq build failed"; exit 1; }
sh extract/build.sh
[ -f harness/Cargo.lock ] || cp /repo/Cargo.lock harness/Cargo.lock
( cd harness && cargo build --offline > ../build/cargo-build.log 2>&1 ) \
  || { tail -40 build/cargo-build.log; echo "setup: harness build failed"; exit 1; }
echo "setup ok"
