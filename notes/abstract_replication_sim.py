import random, sys
# per-member abstract model: owner ledger + copies; nondeterministic truncation, arbitrary digests, monotone message set
SET, DEL, TTL = 0, 1, 2
def tomb(st): return st != SET
class Copy:
    def __init__(s): s.gc=0; s.max=0; s.kv={}  # key -> (val, ver, st)
    def clone(s):
        c=Copy(); c.gc=s.gc; c.max=s.max; c.kv=dict(s.kv); return c
def run(seed, block_weak, steps=400):
    rnd=random.Random(seed)
    ledger=[]  # index i -> version i+1 : (key,val,st)
    owner=Copy(); reps=[None,None,None]
    msgs=[]   # (gc_d, frm, entries[(k,val,ver,st)], dmax, hz_d)
    weak_happened=False
    def cur(k):
        for i in range(len(ledger)-1,-1,-1):
            if ledger[i][0]==k: return (ledger[i][1], i+1, ledger[i][2])
        return None
    def check(c, who):
        V=len(ledger)
        assert c.max<=V and c.gc<=V, ("ahead",who)
        for k,(val,ver,st) in c.kv.items():
            assert 1<=ver<=c.max and ledger[ver-1]==(k,val,st), ("integrity",who)
        bad=[]
        for k in "ab":
            cu=cur(k)
            if cu and cu[1]<=c.max:
                ok = c.kv.get(k)==cu or (tomb(cu[2]) and cu[1]<=c.gc and k not in c.kv)
                if not ok: bad.append(k)
        return bad
    for step in range(steps):
        r=rnd.random()
        copies=[owner]+[c for c in reps if c is not None]
        if r<0.15 and len(ledger)<7:
            k=rnd.choice("ab"); op=rnd.choice([SET,DEL,TTL,SET])
            e=owner.kv.get(k)
            if op==SET:
                val=rnd.choice("xy")
                if e and e[0]==val and e[2]==SET: continue
                ledger.append((k,val,SET))
            elif op==TTL:
                val=rnd.choice("xy")
                if e and e[0]==val and e[2]==TTL: continue
                ledger.append((k,val,TTL))
            else:
                if not e: continue
                ledger.append((k,"",DEL))
            owner.max=len(ledger); owner.kv[k]=(ledger[-1][1],owner.max,ledger[-1][2])
        elif r<0.30:
            c=rnd.choice(copies)
            ts=[k for k,e in c.kv.items() if tomb(e[2])]
            if not ts: continue
            rm=[k for k in ts if rnd.random()<0.6]
            for k in rm:
                c.gc=max(c.gc,c.kv[k][1]); del c.kv[k]
        elif r<0.36:
            i=rnd.randrange(3); reps[i]=Copy() if reps[i] is None or rnd.random()<0.3 else reps[i]
        elif r<0.66:
            s=rnd.choice(copies)
            # arbitrary digest
            if rnd.random()<0.7:
                t=rnd.choice(copies); dg,dm=t.gc,t.max
            else:
                dg,dm=rnd.randrange(8),rnd.randrange(8)
            if s.max<=dm: continue
            reset = dg<s.gc and dm<s.gc
            frm = 0 if reset else dm
            stale=sorted([(k,)+e for k,e in s.kv.items() if e[1]>frm], key=lambda x:x[2])
            n=rnd.randint(0,len(stale)) if rnd.random()<0.5 else len(stale)
            ent=stale[:n]
            if ent: dmax=ent[-1][2]
            elif not stale and rnd.random()<0.8: dmax=s.max
            else: dmax=0
            msgs.append((s.gc,frm,ent,dmax,max(s.gc,s.max)))
        else:
            if not msgs: continue
            gc_d,frm,ent,dmax,hz_d=rnd.choice(msgs)
            tgt=rnd.choice(copies)
            c=tgt
            if frm>c.max: continue
            compat = gc_d<=c.gc or gc_d<=c.max
            if not compat:
                if frm!=0: continue
                c.kv={}; c.max=0; c.gc=gc_d
            else:
                if not (c.max<dmax): continue
                weak = c.gc>c.max and hz_d<c.gc
                weak_obs = c.gc>c.max and gc_d<c.gc and dmax<c.gc   # observable over-approx
                if weak and not weak_obs: raise Exception("weak not covered by observable class")
                if weak_obs and block_weak: continue
                if weak: weak_happened=True
            cm=c.max
            for (k,val,ver,st) in ent:
                if ver<=cm: continue
                if tomb(st) and ver<=c.gc: continue
                if k in c.kv and c.kv[k][1]>=ver: 
                    c.max=max(c.max,ver); continue
                c.kv[k]=(val,ver,st); c.max=max(c.max,ver)
            assert dmax>=c.max, "assert 236"
            c.max=dmax
        for idx,c in enumerate([owner]+reps):
            if c is None: continue
            bad=check(c, idx)
            if bad:
                return ("C02-violation", step, weak_happened)
        assert owner.max==len(ledger)
    return ("ok",steps,weak_happened)
if __name__=="__main__":
    block=sys.argv[1]=="block"; n=int(sys.argv[2])
    res={}
    for seed in range(n):
        r=run(seed,block)
        key=(r[0], r[2]) ; res[key]=res.get(key,0)+1
    print(res)
